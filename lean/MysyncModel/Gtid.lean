/-
GTID sets as mysync sees them (DESIGN §3.2).

`Interval` is half-open `[start, stop)` exactly as in go-mysql.  A GTID set is an association list
from `(server uuid, tag)` to a normalised interval list; go-mysql's `map[uuid]map[Tag]IntervalSlice`
with non-empty inner maps is the same thing with the two levels of keys paired (the two-level
look-ups of `Contain`, `Equal` and `IsSplitBrained` — "uuid missing → …, tag missing → …" — have the
same outcome as one look-up of the pair; validated by the correspondence run on tagged sets).

Library code modelled here (trusted base T6): `IntervalSlice.Contain`, `MysqlGTIDSet.Contain/Equal/
Update/String`, `Normalize`.  mysync code modelled here: `intervalSliceMinus`, `mysqlGTIDSetMinus`,
`GTIDDiff`, `IsSlaveBehindOrEqual`, `IsSlaveAhead`, `IsSplitBrained`.
-/
namespace Gtid

structure Interval where
  start : Int
  stop  : Int
  deriving Repr, DecidableEq, Inhabited, BEq

abbrev IvList := List Interval

/-- a transaction number belongs to an interval list -/
def IvList.Mem (x : Int) (l : IvList) : Prop := ∃ iv ∈ l, iv.start ≤ x ∧ x < iv.stop

instance (x : Int) (l : IvList) : Decidable (IvList.Mem x l) := by unfold IvList.Mem; infer_instance

/-- what `IntervalSlice.Normalize` produces: non-empty intervals, sorted, and separated by a gap
(adjacent intervals are merged by `Normalize`: it merges unless `next.start > last.stop`) -/
def Normal : IvList → Prop
  | [] => True
  | [iv] => iv.start < iv.stop
  | iv :: jv :: r => iv.start < iv.stop ∧ iv.stop < jv.start ∧ Normal (jv :: r)

instance : (l : IvList) → Decidable (Normal l)
  | [] => isTrue trivial
  | [iv] => by unfold Normal; infer_instance
  | iv :: jv :: r => by
      unfold Normal
      have := instDecidableNormal (jv :: r)
      infer_instance

/-- `IntervalSlice.Contain`: for every sub-interval, `sort.Search` finds the first `j` with
`sub.Start <= s[j].Stop` (on a normalised `s` the predicate is monotone, so binary search returns the
first such index — modelled as `find?`), and the sub-interval must lie inside `s[j]`. -/
def ivContain (s sub : IvList) : Bool :=
  sub.all fun iv =>
    match s.find? (fun j => decide (iv.start ≤ j.stop)) with
    | none => false
    | some j => !(decide (iv.start < j.start) || decide (iv.stop > j.stop))

/-- inner loop of `intervalSliceMinus` for one interval `[cur, stop)` of `a`; returns what is
appended to the result and the part of `b` the index `bi` still points at -/
def minusOne (cur stop : Int) : IvList → IvList × IvList
  | [] => (if cur < stop then [⟨cur, stop⟩] else [], [])
  | bj :: bs =>
    if cur ≥ stop then ([], bj :: bs)                       -- `for cur < iv.Stop` is false
    else if bj.stop ≤ cur then minusOne cur stop bs          -- `bi++` : b[bi] ends before cur
    else if bj.start ≥ stop then ([⟨cur, stop⟩], bj :: bs)   -- nothing of b overlaps [cur, stop)
    else
      let pre : IvList := if bj.start > cur then [⟨cur, bj.start⟩] else []
      -- cur = b[bi].Stop; bi is NOT advanced here (only at the top of the next iteration)
      if bj.stop ≥ stop then (pre, bj :: bs)
      else
        let (r, rest) := minusOne bj.stop stop bs
        (pre ++ r, rest)

/-- `intervalSliceMinus a b` -/
def ivMinus : IvList → IvList → IvList
  | [], _ => []
  | iv :: as, b =>
    let (r, b') := minusOne iv.start iv.stop b
    r ++ ivMinus as b'

/-- key of a GTID set entry: (server uuid in canonical text form, normalised tag; "" = no tag) -/
structure Key where
  sid : String
  tag : String
  deriving Repr, DecidableEq, Inhabited, BEq, Hashable

abbrev GtidSet := List (Key × IvList)

def lookup (s : GtidSet) (k : Key) : Option IvList :=
  match s with
  | [] => none
  | (k', l) :: r => if k' = k then some l else lookup r k

/-- a transaction: key + number -/
def GtidSet.Mem (s : GtidSet) (k : Key) (x : Int) : Prop := ∃ l, lookup s k = some l ∧ IvList.Mem x l

def keys (s : GtidSet) : List Key := s.map (·.1)

/-- well-formed: distinct keys, every interval list normalised and non-empty (what the parser and
`mysqlGTIDSetMinus` produce) -/
def WF (s : GtidSet) : Prop :=
  (keys s).Nodup ∧ ∀ k l, (k, l) ∈ s → Normal l ∧ l ≠ []

/-- `MysqlGTIDSet.Contain` : `s.Contain(o)` -/
def contain (s o : GtidSet) : Bool :=
  o.all fun (k, ol) =>
    match lookup s k with
    | none => false
    | some sl => ivContain sl ol

/-- `MysqlGTIDSet.Equal` -/
def equal (s o : GtidSet) : Bool :=
  s.length == o.length &&
  s.all fun (k, sl) =>
    match lookup o k with
    | none => false
    | some ol => sl == ol

def isSlaveBehindOrEqual (slave master : GtidSet) : Bool := contain master slave || equal master slave
def isSlaveAhead (slave master : GtidSet) : Bool := !isSlaveBehindOrEqual slave master

/-- `IsSplitBrained(slave, master, masterUUID)` -/
def isSplitBrained (slave master : GtidSet) (masterUuid : String) : Bool :=
  slave.any fun (k, sl) =>
    match lookup master k with
    | none => true
    | some ml =>
      if ivContain ml sl then false
      else if k.sid = masterUuid then false
      else true

/-- `mysqlGTIDSetMinus a b` -/
def gtidMinus (a b : GtidSet) : GtidSet :=
  a.filterMap fun (k, al) =>
    let diff := match lookup b k with
      | none => al
      | some bl => ivMinus al bl
    if diff.isEmpty then none else some (k, diff)

inductive DiffClass | equal | sourceAhead | replicaAhead | splitBrain
  deriving Repr, DecidableEq

/-- the four-way classification of `GTIDDiff(replica, source)` together with the two differences
(`String() == ""` iff the difference has no entry) -/
def gtidDiff (replica source : GtidSet) : DiffClass × GtidSet × GtidSet :=
  let dSrc := gtidMinus source replica
  let dRep := gtidMinus replica source
  let c := match dSrc.isEmpty, dRep.isEmpty with
    | true, true => DiffClass.equal
    | false, true => DiffClass.sourceAhead
    | false, false => DiffClass.splitBrain
    | true, false => DiffClass.replicaAhead
  (c, dSrc, dRep)

/-! ### `Normalize` and `Update` (used for executed ∪ retrieved) -/

def insertSorted (iv : Interval) : IvList → IvList
  | [] => [iv]
  | jv :: r => if iv.start < jv.start || (iv.start == jv.start && iv.stop ≤ jv.stop) then iv :: jv :: r else jv :: insertSorted iv r

def sortIv (l : IvList) : IvList := l.foldr insertSorted []

/-- the merge loop of `Normalize` over an already sorted list; `acc` is the result so far, reversed -/
def mergeSorted : IvList → IvList → IvList
  | acc, [] => acc.reverse
  | [], iv :: r => mergeSorted [iv] r
  | last :: acc, iv :: r =>
    if iv.start > last.stop then mergeSorted (iv :: last :: acc) r
    else mergeSorted (⟨last.start, max last.stop iv.stop⟩ :: acc) r

def normalize (l : IvList) : IvList := mergeSorted [] (sortIv l)

/-- `MysqlGTIDSet.Update` with an already parsed argument -/
def update (s o : GtidSet) : GtidSet :=
  o.foldl (fun acc (k, ol) =>
    match lookup acc k with
    | none => acc ++ [(k, ol)]
    | some _ => acc.map fun (k', l) => if k' = k then (k', normalize (l ++ ol)) else (k', l)) s

/-! ### printing (`MysqlGTIDSet.String`) -/

def ivToString (iv : Interval) : String :=
  if iv.stop == iv.start + 1 then toString iv.start else s!"{iv.start}-{iv.stop - 1}"

def keyLt (a b : Key) : Bool := a.sid < b.sid || (a.sid == b.sid && a.tag < b.tag)

def insertKey (e : Key × IvList) : GtidSet → GtidSet
  | [] => [e]
  | f :: r => if keyLt e.1 f.1 then e :: f :: r else f :: insertKey e r

def sortKeys (s : GtidSet) : GtidSet := s.foldr insertKey []

def toText (s : GtidSet) : String :=
  let rec go (prev : Option String) : GtidSet → String
    | [] => ""
    | (k, l) :: r =>
      let head := if prev == some k.sid then "" else (if prev.isSome then "," else "") ++ k.sid
      let tag := if k.tag == "" then "" else ":" ++ k.tag
      head ++ tag ++ String.join (l.map fun iv => ":" ++ ivToString iv) ++ go (some k.sid) r
  go none (sortKeys s)

def diffText (replica source : GtidSet) : String :=
  match gtidDiff replica source with
  | (.equal, _, _) => "replica gtid equal source"
  | (.sourceAhead, d, _) => s!"source ahead on: {toText d}"
  | (.splitBrain, d, e) => s!"split brain! source ahead on: {toText d}; replica ahead on: {toText e}"
  | (.replicaAhead, _, e) => s!"replica ahead on: {toText e}"

end Gtid
