/-
C03 (i) — N mysync processes using `AcquireLock` / `ReleaseLock` on ONE lock key over one ensemble.

Global small-step system: every primitive of every client is one atomic step of the server, anything
may happen between two primitives of one operation (other clients' primitives, session expiry, the
client noticing a session event, reconnects, time).  The client programs are the SAME `Prog`s that
the replay checks against the real `zkDCS` (`Zk.opAcquire`, `Zk.opRelease`).

E5 (environment assumption of the property's first clause, see DESIGN.md): the server expires a
session only after its client has noticed the loss (cache dropped by `handleSessionEvent`) and while
no ReleaseLock of that client is between its read and its delete (`expire`: no operation at all in flight;
`expireAcq`: an AcquireLock may be in flight).  go-zookeeper's receive time-out (2/3 of the session
time-out) is what makes the first half true in a deployment; it is runtime behaviour and not modelled.
`Step.expireAny` is the same step without E5, used for the counter-models.
-/
import MysyncModel.Dcs.Zk

namespace LockSys
open Zk

structure Client where
  id : String                           -- JSON text of {hostname,pid}
  sid : Sid                             -- current session id (may be dead)
  cache : Option Int := none            -- lockHeld entry: time of the last confirmation
  prog : Option (Prog Res) := none      -- operation in flight
  acquiring : Bool := false             -- … and whether it is an AcquireLock

structure Sys where
  srv : Server
  clients : List Client
  now : Int := 0
  ttl : Int
  lock : Path
  nextSid : Sid                         -- fresh session ids
  attempts : Nat := 4                   -- 1 + backoff_max_retries
  /-- answers `true` given so far: (client index, answered from the cache) , newest first -/
  told : List (Nat × Bool) := []

inductive Step
  | tick (d : Nat)
  | beginAcquire (c : Nat)
  | beginRelease (c : Nat)
  | prim (c : Nat)                      -- the pending primitive of c is executed and answered
  | primLost (c : Nat)                  -- … executed, the reply is lost: the client sees a closed connection
  | primLostRetry (c : Nat)             -- … executed, reply lost, and the retry wrapper blindly re-sends the same
                                        --   request later (`retryGet` / `retryCreate` inside AcquireLock only)
  | fail (c : Nat) (e : Err)            -- the pending primitive fails without being executed
  | event (c : Nat)                     -- c handles a non-HasSession event: cache dropped
  | expire (c : Nat)                    -- the server ends c's session (E5-guarded)
  | expireAcq (c : Nat)                 -- … also in the middle of an AcquireLock of c (weaker guard: only the cache must
                                        --   have been dropped and no ReleaseLock of c may be in flight)
  | expireAny (c : Nat)                 -- … without the guard
  | reconnect (c : Nat)                 -- c (whose session is gone) gets a fresh session
  deriving Repr, DecidableEq

def setClient (cs : List Client) (i : Nat) (c : Client) : List Client := cs.set i c

/-- finish or continue an operation after its continuation produced `p` -/
def settle (σ : Sys) (i : Nat) (c : Client) (p : Prog Res) : Sys :=
  match p with
  | .ret r =>
    if c.acquiring && r == .bool true then
      { σ with clients := setClient σ.clients i { c with prog := none, acquiring := false, cache := some σ.now },
               told := (i, false) :: σ.told }
    else { σ with clients := setClient σ.clients i { c with prog := none, acquiring := false } }
  | p => { σ with clients := setClient σ.clients i { c with prog := some p } }

def step (σ : Sys) : Step → Sys
  | .tick d => { σ with now := σ.now + d }
  | .beginAcquire i =>
    match σ.clients[i]? with
    | none => σ
    | some c =>
      if c.prog.isSome then σ
      else if cacheFresh c.cache σ.now σ.ttl then { σ with told := (i, true) :: σ.told }
      else { σ with clients := setClient σ.clients i { c with cache := none, prog := some (opAcquire σ.lock c.id), acquiring := true } }
  | .beginRelease i =>
    match σ.clients[i]? with
    | none => σ
    | some c =>
      if c.prog.isSome then σ
      else { σ with clients := setClient σ.clients i { c with cache := none, prog := some (opRelease σ.lock c.id σ.attempts), acquiring := false } }
  | .prim i =>
    match σ.clients[i]? with
    | some c =>
      (match c.prog with
       | some (.call p k) =>
         if σ.srv.live.contains c.sid then
           let (srv', r) := σ.srv.step c.sid p
           settle { σ with srv := srv' } i c (k r)
         else σ
       | _ => σ)
    | none => σ
  | .primLost i =>
    match σ.clients[i]? with
    | some c =>
      (match c.prog with
       | some (.call p k) =>
         if σ.srv.live.contains c.sid then
           let (srv', _) := σ.srv.step c.sid p
           settle { σ with srv := srv' } i c (k (.err .connClosed))
         else σ
       | _ => σ)
    | none => σ
  | .primLostRetry i =>
    match σ.clients[i]? with
    | some c =>
      (match c.prog with
       | some (.call p _) =>
         if σ.srv.live.contains c.sid && c.acquiring then { σ with srv := (σ.srv.step c.sid p).1 } else σ
       | _ => σ)
    | none => σ
  | .fail i e =>
    match σ.clients[i]? with
    | some c =>
      (match c.prog with
       | some (.call _ k) => settle σ i c (k (.err e))
       | _ => σ)
    | none => σ
  | .event i =>
    match σ.clients[i]? with
    | some c => { σ with clients := setClient σ.clients i { c with cache := none } }
    | none => σ
  | .expire i =>
    match σ.clients[i]? with
    | some c => if c.cache.isNone && c.prog.isNone then { σ with srv := σ.srv.expire c.sid } else σ
    | none => σ
  | .expireAcq i =>
    match σ.clients[i]? with
    | some c => if c.cache.isNone && (c.prog.isNone || c.acquiring) then { σ with srv := σ.srv.expire c.sid } else σ
    | none => σ
  | .expireAny i =>
    match σ.clients[i]? with
    | some c => { σ with srv := σ.srv.expire c.sid }
    | none => σ
  | .reconnect i =>
    match σ.clients[i]? with
    | some c =>
      if σ.srv.live.contains c.sid then σ
      else { σ with srv := σ.srv.openSession σ.nextSid, nextSid := σ.nextSid + 1,
                    clients := setClient σ.clients i { c with sid := σ.nextSid } }
    | none => σ

def run (σ : Sys) (steps : List Step) : Sys := steps.foldl step σ

/-- initial state: n clients with the given identities, each with its own live session, empty tree
below an existing parent of the lock key -/
def init (ids : List String) (lock : Path) (ttl : Int) (parents : List (Path × ZNode)) : Sys :=
  { srv := { nodes := parents, live := (List.range ids.length).map (· + 1) },
    clients := ids.zipIdx.map fun (id, i) => { id := id, sid := i + 1 },
    ttl := ttl, lock := lock, nextSid := ids.length + 1 }

/-- E5-respecting schedules -/
def Step.guarded : Step → Bool
  | .expireAny _ => false
  | _ => true

/-- the server-side owner of the lock, as an identity -/
def lockData (σ : Sys) : Option String := (σ.srv.find? σ.lock).map (·.data)

/-- client i is the legitimate holder right now: the lock znode exists, carries its identity and
belongs to its live session -/
def holds (σ : Sys) (i : Nat) : Bool :=
  match σ.clients[i]?, σ.srv.find? σ.lock with
  | some c, some n => n.data == c.id && n.owner == c.sid && σ.srv.live.contains c.sid
  | _, _ => false

end LockSys
