/-
C15 / C03 — the coordination layer `internal/dcs/zk.go` over a model of the ZooKeeper primitives.

Three layers:
 * `Server`   : the znode tree with versions and ephemeral owners, one atomic step per primitive
                (create / getData / setData / delete / getChildren), session open / expiry.
                This is the contract of a ZooKeeper ensemble as far as mysync uses it (T5: the fake
                server of the harness is validated against it line by line; the real ZooKeeper is not
                available offline).
 * `Prog`     : the client operations of `zkDCS` as interaction trees over the primitives: another
                client's primitive may run between any two calls.  The retry wrapper
                (`retryRequest`) is below this level: `call p k` hands `k` the response that the
                wrapper finally returns.
 * path keys  : `buildFullPath` at character level.
-/
namespace Zk

/-! ### keys -/

def sep : Char := '/'

/-- the loop of `buildFullPath`: a separator that follows a separator is dropped -/
def collapse : List Char → List Char
  | [] => []
  | [c] => [c]
  | a :: b :: rest => if a == sep && b == sep then collapse (b :: rest) else a :: collapse (b :: rest)

/-- … then one trailing separator is removed -/
def stripTrailing (l : List Char) : List Char :=
  match l.getLast? with
  | some c => if c == sep then l.dropLast else l
  | none => l

/-- `buildFullPath` : `JoinPath(namespace, path)` = `namespace ++ "/" ++ path`, collapsed, stripped -/
def buildFullPathChars (ns p : List Char) : List Char := stripTrailing (collapse (ns ++ [sep] ++ p))

def buildFullPath (ns p : String) : String := String.ofList (buildFullPathChars ns.toList p.toList)

/-- non-empty pieces between separators -/
def segsAux : List Char → List Char → List (List Char)
  | [], cur => if cur.isEmpty then [] else [cur.reverse]
  | c :: rest, cur =>
    if c == sep then (if cur.isEmpty then segsAux rest [] else cur.reverse :: segsAux rest [])
    else segsAux rest (c :: cur)

def segs (l : List Char) : List (List Char) := segsAux l []

/-- canonical spelling of a list of segments: "/a/b/c" -/
def spell : List (List Char) → List Char
  | [] => []
  | s :: rest => sep :: s ++ spell rest

abbrev Path := List String
def pathOf (full : String) : Path := (segs full.toList).map String.ofList

/-! ### server -/

abbrev Sid := Nat

structure ZNode where
  data : String
  version : Int := 0
  owner : Sid := 0                      -- 0 = persistent
  deriving Repr, DecidableEq, Inhabited

structure Server where
  nodes : List (Path × ZNode) := []     -- the root `[]` is implicit and persistent
  live : List Sid := []
  deriving Repr, DecidableEq

inductive Err
  | noNode | nodeExists | badVersion | notEmpty | noChildrenForEphemerals
  | connClosed | sessionExpired | other
  deriving Repr, DecidableEq

inductive Prim
  | get (p : Path)
  | create (p : Path) (data : String) (eph : Bool)
  | set (p : Path) (data : String) (ver : Int)
  | delete (p : Path) (ver : Int)
  | children (p : Path)
  deriving Repr, DecidableEq

inductive Resp
  | data (d : String) (ver : Int) (owner : Sid)
  | created
  | stat (ver : Int)
  | deleted
  | children (cs : List String)
  | err (e : Err)
  deriving Repr, DecidableEq

def Server.find? (s : Server) (p : Path) : Option ZNode := (s.nodes.find? (·.1 == p)).map (·.2)

def Server.has (s : Server) (p : Path) : Bool := p == [] || (s.find? p).isSome

def Server.childrenOf (s : Server) (p : Path) : List String :=
  s.nodes.filterMap fun (q, _) => if q.dropLast == p && q != [] then q.getLast? else none

def Server.erase (s : Server) (p : Path) : Server := { s with nodes := s.nodes.filter (·.1 != p) }

def Server.put (s : Server) (p : Path) (n : ZNode) : Server :=
  if (s.find? p).isSome then { s with nodes := s.nodes.map fun (q, m) => if q == p then (q, n) else (q, m) }
  else { s with nodes := s.nodes ++ [(p, n)] }

/-- one primitive, executed atomically by the ensemble on behalf of live session `sid` -/
def Server.step (s : Server) (sid : Sid) : Prim → Server × Resp
  | .get p =>
    match s.find? p with
    | some n => (s, .data n.data n.version n.owner)
    | none => if p == [] then (s, .data "" 0 0) else (s, .err .noNode)
  | .create p d eph =>
    if p == [] then (s, .err .nodeExists) else
    let parentOwner : Option Sid := if p.dropLast == [] then some 0 else (s.find? p.dropLast).map (·.owner)
    match parentOwner with
    | none => (s, .err .noNode)
    | some po =>
      if (s.find? p).isSome then (s, .err .nodeExists)
      else if po != 0 then (s, .err .noChildrenForEphemerals)
      else (s.put p { data := d, version := 0, owner := if eph then sid else 0 }, .created)
  | .set p d v =>
    match s.find? p with
    | none => (s, .err .noNode)
    | some n =>
      if v != -1 && v != n.version then (s, .err .badVersion)
      else (s.put p { n with data := d, version := n.version + 1 }, .stat (n.version + 1))
  | .delete p v =>
    match s.find? p with
    | none => (s, .err .noNode)
    | some n =>
      if v != -1 && v != n.version then (s, .err .badVersion)
      else if !(s.childrenOf p).isEmpty then (s, .err .notEmpty)
      else (s.erase p, .deleted)
  | .children p =>
    if s.has p then (s, .children (s.childrenOf p)) else (s, .err .noNode)

def Server.openSession (s : Server) (sid : Sid) : Server := { s with live := sid :: s.live }

/-- session end (expiry or close): the session's ephemerals disappear with it -/
def Server.expire (s : Server) (sid : Sid) : Server :=
  { nodes := s.nodes.filter (·.2.owner != sid), live := s.live.filter (· != sid) }

/-! ### client operations -/

inductive Prog (α : Type) where
  | ret (a : α)
  | call (p : Prim) (k : Resp → Prog α)

inductive Res
  | ok
  | exists_                               -- ErrExists
  | notFound                              -- ErrNotFound
  | malformed                             -- ErrMalformed
  | notEphemeral                          -- "exists, but not ephemeral, can't make it ephemeral"
  | err (e : Err)                         -- any other error, passed through
  | val (d : String)                      -- Get: the raw value that parsed
  | children (cs : List String)
  | bool (b : Bool)                       -- AcquireLock
  | done                                  -- ReleaseLock (no result)
  deriving Repr, DecidableEq

def errOf : Resp → Err
  | .err e => e
  | _ => .other

/-- create every path of `ps` (shortest first); an already existing node is fine -/
def createAll : List Path → Prog (Option Err) → Prog (Option Err)
  | [], k => k
  | p :: rest, k => .call (.create p "" false) fun r =>
    match r with
    | .created => createAll rest k
    | .err .nodeExists => createAll rest k
    | r => .ret (some (errOf r))

/-- `makePath`: probe the prefixes from the longest down to the first existing one, then create the missing ones -/
def probeDown : List Path → List Path → Prog (Option Err)
  | [], missing => createAll missing (.ret none)
  | p :: rest, missing => .call (.get p) fun r =>
    match r with
    | .data .. => createAll missing (.ret none)
    | .err .noNode => probeDown rest (p :: missing)
    | r => .ret (some (errOf r))

/-- all non-empty prefixes, longest first -/
def prefixesDown (p : Path) : List Path := ((List.range p.length).map fun i => p.take (i + 1)).reverse

def makePath (p : Path) : Prog (Option Err) := probeDown (prefixesDown p) []

def bindErr (m : Prog (Option Err)) (k : Prog Res) : Prog Res :=
  match m with
  | .ret none => k
  | .ret (some e) => .ret (.err e)
  | .call p f => .call p fun r => bindErr (f r) k

/-- `create` / `CreateEphemeral` -/
def opCreate (p : Path) (d : String) (eph : Bool) : Prog Res :=
  .call (.create p d eph) fun r =>
    match r with
    | .created => .ret .ok
    | .err .nodeExists => .ret .exists_
    | r => .ret (.err (errOf r))

/-- `set` / `SetEphemeral` -/
def opSet (p : Path) (d : String) (eph : Bool) : Prog Res :=
  .call (.get p) fun r =>
    match r with
    | .err .noNode =>
      bindErr (makePath p.dropLast) (.call (.create p d eph) fun r =>
        match r with
        | .created => .ret .ok
        | r => .ret (.err (errOf r)))
    | .data _ ver owner =>
      if eph && owner == 0 then .ret .notEphemeral
      else .call (.set p d ver) fun r =>
        match r with
        | .stat _ => .ret .ok
        | r => .ret (.err (errOf r))
    | r => .ret (.err (errOf r))

/-- `Get`; `valid` = the value unmarshals into the destination -/
def opGet (valid : String → Bool) (p : Path) : Prog Res :=
  .call (.get p) fun r =>
    match r with
    | .err .noNode => .ret .notFound
    | .data d _ _ => if valid d then .ret (.val d) else .ret .malformed
    | r => .ret (.err (errOf r))

/-- `Delete` -/
def opDelete (p : Path) : Prog Res :=
  .call (.get p) fun r =>
    match r with
    | .err .noNode => .ret .ok
    | .data _ ver _ => .call (.delete p ver) fun r =>
      match r with
      | .deleted => .ret .ok
      | r => .ret (.err (errOf r))
    | r => .ret (.err (errOf r))

/-- `GetChildren` -/
def opChildren (p : Path) : Prog Res :=
  .call (.children p) fun r =>
    match r with
    | .err .noNode => .ret .notFound
    | .children cs => .ret (.children cs)
    | r => .ret (.err (errOf r))

/-- `AcquireLock` after the cache lookup missed; `self` = the JSON text of `{hostname,pid}` -/
def opAcquire (p : Path) (self : String) : Prog Res :=
  .call (.get p) fun r =>
    match r with
    | .err .noNode => .call (.create p self true) fun r =>
      match r with
      | .created => .ret (.bool true)
      | _ => .ret (.bool false)
    | .data d _ _ => .ret (.bool (d == self))
    | _ => .ret (.bool false)

/-- `ReleaseLock` (the cache entry is dropped before).  Unlike the other operations it does not go
through the blind retry wrapper call by call: every attempt reads the owner again before it deletes,
because a delete whose reply was lost may have been applied and the key re-created by another process
(lock znodes are never `set`: their version is always 0).  `attempts` = 1 + backoff_max_retries. -/
def opRelease (p : Path) (self : String) : (attempts : Nat) → Prog Res
  | 0 => .ret .done
  | n + 1 => .call (.get p) fun r =>
    match r with
    | .data d ver _ =>
      if d == self then .call (.delete p ver) fun r =>
        match r with
        | .err .connClosed => opRelease p self n
        | _ => .ret .done
      else .ret .done
    | .err .connClosed => opRelease p self n
    | _ => .ret .done

/-- the lock cache: `AcquireLock` answers `true` without asking while the entry is younger than the TTL -/
def cacheFresh (cache : Option Int) (now ttl : Int) : Bool :=
  match cache with
  | some t => decide (now - t < ttl)
  | none => false

/-- run a program to completion with no other client in between -/
def runSeq (s : Server) (sid : Sid) : Prog α → Nat → Option (Server × α)
  | .ret a, _ => some (s, a)
  | .call _ _, 0 => none
  | .call p k, fuel + 1 => let (s', r) := s.step sid p; runSeq s' sid (k r) fuel

end Zk
