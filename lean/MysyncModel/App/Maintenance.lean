/-
C09 — maintenance handling outside `stateManager`: `stateCandidate` (app.go 774), `stateMaintenance`
(351), `stateFirstRun` (227), `tryLeaveMaintenance` (335), `leaveMaintenance` / `enterMaintenance`
(app_maintenance.go), `ensureCurrentMaster` / `getMasterHost` (1542-1567).
-/
import MysyncModel.App.Manager

namespace Maintenance
open NS Manager

inductive Act
  | writeMaintFile | removeMaintFile
  | semiSyncDisable (host : String) | deleteActiveNodes
  | setMaintenancePaused
  | writeEmerge
  | setMasterHost (h : String)
  | repairCluster                     -- abstract: the repair pass of `leaveMaintenance`
  | updateActiveNodes                 -- abstract: rebuilds and publishes the list from `[]`
  | deleteMaintenance
  deriving Repr, DecidableEq

/-- `stateCandidate` -/
def stateCandidate (connected : Bool) (updateHostsOk : Bool) (maint : MaintRead) (lockAcquired : Bool) : State :=
  if !connected then .lost
  else if !updateHostsOk then .candidate
  else match maint with
    | .err _ => .candidate
    | .record light paused _ => if paused && !light then .maintenance else (if lockAcquired then .manager else .candidate)
    | .absent => if lockAcquired then .manager else .candidate

/-- `stateFirstRun` -/
def stateFirstRun (connectedInTime : Bool) (maintFile : Bool) (lockAcquired : Bool) : State :=
  if !connectedInTime then (if maintFile then .maintenance else .firstRun)
  else if lockAcquired then .manager else .candidate

/-- `getMasterHost`: hosts that are reachable and report master role -/
def mastersOf (cs : ClusterState) : List String :=
  (cs.filter fun (_, s) => s.pingOk && s.isMaster).map (·.1)

structure LeaveIn where
  updateHostsOk : Bool := true
  cs : ClusterState                    -- view taken by `leaveMaintenance`
  setMasterOk : Bool := true
  dcsStateOk : Bool := true
  updateActiveOk : Bool := true
  /-- `GetActiveNodes` after the rebuild: none = read error -/
  activeAfter : Option (List String) := some []
  deleteOk : Bool := true
  deriving Repr

/-- `leaveMaintenance`; returns the actions and whether it succeeded -/
def leaveMaintenance (i : LeaveIn) : List Act × Bool :=
  if !i.updateHostsOk then ([], false)
  else match mastersOf i.cs with
    | [] => ([], false)                                        -- ErrNoMaster : the mode is kept
    | [m] =>
      if !i.setMasterOk then ([.setMasterHost m], false)
      else if !i.dcsStateOk then ([.setMasterHost m], false)
      else if !i.updateActiveOk then ([.setMasterHost m, .repairCluster, .updateActiveNodes], false)
      else match i.activeAfter with
        | none => ([.setMasterHost m, .repairCluster, .updateActiveNodes], false)
        | some [] => ([.setMasterHost m, .repairCluster, .updateActiveNodes], false)   -- ErrNoActiveNodes
        | some _ => ([.setMasterHost m, .repairCluster, .updateActiveNodes, .deleteMaintenance], i.deleteOk)
    | _ :: _ :: _ => ([.writeEmerge], false)                  -- ErrManyMasters

/-- `tryLeaveMaintenance` -/
def tryLeave (lockAcquired : Bool) (i : LeaveIn) : List Act × State :=
  if lockAcquired then
    let (acts, ok) := leaveMaintenance i
    if ok then (acts ++ [.removeMaintFile], .manager) else (acts, .maintenance)
  else ([.removeMaintFile], .candidate)

/-- `stateMaintenance` -/
def stateMaintenance (maintFile : Bool) (maint : MaintRead) (lockAcquired : Bool) (i : LeaveIn) : List Act × State :=
  let pre : List Act := if maintFile then [] else [.writeMaintFile]
  match maint with
  | .err _ => (pre, .maintenance)
  | .absent => let (a, s) := tryLeave lockAcquired i; (pre ++ a, s)
  | .record _ _ shouldLeave =>
    if shouldLeave then let (a, s) := tryLeave lockAcquired i; (pre ++ a, s)
    else (pre, .maintenance)

/-- `enterMaintenance` (called by the manager for an unacknowledged full-mode record) -/
def enterMaintenance (disableSemiSync : Bool) (master : String) (ssDisableOk delActiveOk setOk : Bool) : List Act × Bool :=
  if disableSemiSync then
    if !ssDisableOk then ([.semiSyncDisable master], false)
    else if !delActiveOk then ([.semiSyncDisable master, .deleteActiveNodes], false)
    else ([.semiSyncDisable master, .deleteActiveNodes, .setMaintenancePaused], setOk)
  else ([.setMaintenancePaused], setOk)

/-- does an action touch MySQL settings/topology, the recorded master or the active list? -/
def Act.touchesCluster : Act → Bool
  | .semiSyncDisable _ | .deleteActiveNodes | .setMasterHost _ | .repairCluster | .updateActiveNodes => true
  | _ => false

end Maintenance
