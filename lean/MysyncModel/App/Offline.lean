/-
C17 — offline-mode policy: `repairOfflineMode`, `repairSlaveOfflineMode`, `repairMasterOfflineMode`
(internal/app/app.go ~1569-1690) and the three filters of offline_mode_filter.go.
Lags and durations are integers in one unit (the replay feeds milliseconds: the code's lags are floats of seconds).
-/
import MysyncModel.NodeState

namespace Offline
open NS

structure Cfg where
  enableLag : Int          -- offline_mode_enable_lag
  disableLag : Int         -- offline_mode_disable_lag
  maxOfflinePct : Int      -- offline_mode_max_offline_pct
  azSeparator : String     -- offline_mode_az_separator
  enableInterval : Int     -- offline_mode_enable_interval
  deriving Repr, Inhabited

/-- index of the first occurrence of `sep` in `s` (as `strings.Index`), on character lists -/
def indexOf (s sep : List Char) : Option Nat :=
  let rec go (s : List Char) (i : Nat) : Option Nat :=
    if sep.isPrefixOf s then some i else
    match s with
    | [] => none
    | _ :: r => go r (i + 1)
  go s 0

/-- `getAvailabilityZone` -/
def getAZ (fqdn sep : String) : String :=
  if sep == "" then "" else
  match indexOf fqdn.toList sep.toList with
  | some i => String.ofList (fqdn.toList.take i)
  | none => ""

/-- totals of `azLimitedOfflineFilter.CanSetOffline`: (replicas in the zone, of which offline) -/
def azCounts (sep az : String) (cs : ClusterState) : Int × Int :=
  cs.foldl (fun (acc : Int × Int) (e : String × NodeState) =>
    if e.2.isMaster || getAZ e.1 sep != az then acc
    else (acc.1 + 1, if e.2.isOffline then acc.2 + 1 else acc.2)) (0, 0)

/-- `NewOfflineModeFilter(cfg).CanSetOffline(host, clusterState, pending)`; `pendingInAZ` is
`pendingOfflineByAZ[az]` at the moment of the call -/
def canSetOffline (cfg : Cfg) (host : String) (cs : ClusterState) (pendingInAZ : Int) : Bool :=
  if cfg.maxOfflinePct ≤ 0 then false
  else if cfg.maxOfflinePct ≥ 100 then true
  else
    let az := getAZ host cfg.azSeparator
    let (total, offline) := azCounts cfg.azSeparator az cs
    if total == 0 then false
    else
      let willBe := (100 * (offline + pendingInAZ + 1)) / total     -- floor of a non-negative quotient
      decide (willBe ≤ cfg.maxOfflinePct)

/-- outcome of the two reads made before a replica is brought online -/
inductive ResetupInfo
  | statusErr                          -- `GetResetupStatus` failed
  | startupErr                         -- `GetStartupTime` failed
  | ok (status : Bool) (updateBeforeStartup : Bool)
  deriving Repr, DecidableEq

inductive Act
  | setDefaultReplSettings | setOnline | setOffline | optEnable | updateLastShutdown
  | readResetup | readStartup | readLastShutdown | skipCap
  deriving Repr, DecidableEq

/-- inputs that come from calls made while handling one replica -/
structure SlaveIn where
  pendingInAZ : Int                    -- `pendingOfflineByAZ[az]` when the filter is asked
  resetup : ResetupInfo
  setOfflineOk : Bool                  -- the lag `SetOffline` succeeded
  /-- `GetOrCreateLastShutdownNodeTime`: none = error, some age = `time.Since(last)` in seconds -/
  lastShutdownAge : Option Int
  deriving Repr

/-- `repairSlaveOfflineMode` for one replica; returns the calls in order and whether the pending
counter of its zone is incremented -/
def slavePass (cfg : Cfg) (host : String) (st : NodeState) (masterReadOnly : Bool) (cs : ClusterState)
    (i : SlaveIn) : List Act × Bool :=
  match st.slave with
  | none => ([], false)
  | some sl =>
    match sl.lag with
    | none => ([], false)
    | some lag =>
      let broken := st.permBroken
      if st.isOffline && lag ≤ cfg.disableLag then
        if broken then ([], false)
        else match i.resetup with
          | .statusErr => ([.readResetup], false)
          | .startupErr => ([.readResetup, .readStartup], false)
          | .ok status before =>
            if status || before then ([.readResetup, .readStartup], false)
            else ([.readResetup, .readStartup, .setDefaultReplSettings, .setOnline], false)
      else
        let (a1, inc) :=
          if !st.isOffline && !masterReadOnly && lag > cfg.enableLag then
            if canSetOffline cfg host cs i.pendingInAZ then
              if i.setOfflineOk then ([Act.setOffline, Act.optEnable], true) else ([Act.setOffline], false)
            else ([Act.skipCap], false)
          else ([], false)
        if !broken then (a1, inc)
        else match i.lastShutdownAge with
          | none => (a1 ++ [.readLastShutdown], inc)
          | some age =>
            if !st.isOffline && age > cfg.enableInterval then
              (a1 ++ [.readLastShutdown, .updateLastShutdown, .setOffline], inc)
            else (a1 ++ [.readLastShutdown], inc)

/-- `repairMasterOfflineMode` -/
def masterPass (st : NodeState) (recoveryNeeded : Bool) : List Act :=
  if st.isOffline then (if recoveryNeeded then [] else [.setOnline]) else []

/-- the lag decision alone (used by the fold theorem): does this replica receive the lag
`SetOffline`, given the pending counter -/
def lagOffline (cfg : Cfg) (host : String) (st : NodeState) (masterReadOnly : Bool) (cs : ClusterState)
    (pendingInAZ : Int) : Bool :=
  match st.slave with
  | none => false
  | some sl =>
    match sl.lag with
    | none => false
    | some lag =>
      if st.isOffline && lag ≤ cfg.disableLag then false
      else !st.isOffline && !masterReadOnly && lag > cfg.enableLag && canSetOffline cfg host cs pendingInAZ

/-- One pass over the replicas in visiting order with the `pendingOfflineByAZ` accumulator, all
`SetOffline` statements succeeding: returns the hosts taken offline for lag, in order. -/
def lagPass (cfg : Cfg) (master : String) (cs : ClusterState) : List (String × NodeState) → List String → List String
  | [], taken => taken.reverse
  | (h, st) :: rest, taken =>
    if !st.pingOk || h == master then lagPass cfg master cs rest taken
    else
      let masterRO := match cs.get? master with | some m => m.isReadOnly | none => false
      let az := getAZ h cfg.azSeparator
      let pending : Int := (taken.filter fun t => getAZ t cfg.azSeparator == az).length
      if lagOffline cfg h st masterRO cs pending then lagPass cfg master cs rest (h :: taken)
      else lagPass cfg master cs rest taken

/-- the cluster-wide rate limit for permanently broken replicas over a sequence of passes: `last`
is the stored `last_shutdown_node_time`, `now` the time of the pass; returns whether a broken,
online replica is taken offline and the new stored time (DCS writes succeed) -/
def brokenStep (cfg : Cfg) (last : Int) (now : Int) : Bool × Int :=
  if now - last > cfg.enableInterval then (true, now) else (false, last)

end Offline
