/-
C01 / C07 / C11 — `performSwitchover` (internal/app/app.go 1224-1523) at the level of its phases.

The outcome of every external interaction is an input (an oracle), the output is the ordered list
of steps the procedure takes.  Per-host results of the two parallel freeze phases are functions of
the host; a crash is a prefix of the step list.  `force_switchover` and external replication are
off (T9).  The speed-up phase (phase 0) is abstract here and modelled in Optimization.lean (C19).
-/
import MysyncModel.NodeState
import MysyncModel.Select
import MysyncModel.GtidParse
import MysyncModel.Generated.SwitchHelper
import MysyncModel.App.Manager

namespace Switchover
open NS Gtid Select

structure Cfg where
  semiSync : Bool
  waitCount : Int
  async : Bool
  asyncAllowedLag : Int                  -- ns; > 0 enables the escape
  priorityChoiceMaxLag : Int             -- seconds (after the async adjustment of NewSwitchHelper)
  deriving Repr, Inhabited

def sh (cfg : Cfg) : Gen.SwitchHelper.SwitchHelper :=
  { priorityChoiceMaxLag := 0, rplSemiSyncMasterWaitForSlaveCount := cfg.waitCount, SemiSync := cfg.semiSync }

inductive CatchUp
  | caught                               -- executed(newMaster) ⊇ mostRecent's set
  | asyncEscape                          -- `CheckAsyncSwitchAllowed`
  | aborted                              -- the request disappeared meanwhile
  | timeout
  | err
  deriving Repr, DecidableEq

inductive OldMasterStatus
  | err | notReplica                     -- `GetReplicaStatus` failed / returned no row
  | replica (state : ReplState) (executed : String)
  deriving Repr, DecidableEq

inductive Step
  | stopOptimization (ok : Bool)
  | turboPhase (ok : Bool)               -- false = deadline exceeded → request rejected inside
  | freezeRO (h : String) (ok : Bool)    -- phase 1 on host h
  | rejectInside                         -- old master could not be made read-only (planned switchover): FinishSwitchover(err)
  | stopIO (h : String) (ok : Bool)      -- phase 2 on host h
  | quorumCheck (frozen : Nat) (ok : Bool)
  | lockCheck (n : Nat) (ok : Bool)      -- 1 = after the freeze, 2 = after catch-up
  | positions (ok : Bool)
  | writeEmerge                          -- split brain
  | chosen (newMaster mostRecent : String)
  | setOnline (h : String) (ok : Bool)
  | changeMaster (h to : String) (ok : Bool)
  | catchUp (r : CatchUp)
  | restate (ok : Bool)                  -- second cluster view: new master reachable, nobody dubious
  | setRecovery (h : String) (ok : Bool)
  | stopSlave (h : String) (ok : Bool) | resetSlaveAll (h : String) (ok : Bool)
  | updateActiveNodes
  | setWritable (h : String) (ok : Bool)
  | reenableEvents (ok : Bool)
  | setMasterKey (h : String) (ok : Bool)
  | fail (why : String)
  | panic (site : String)
  deriving Repr, DecidableEq

structure In where
  cs : ClusterState                      -- view at the start of the iteration
  active : List String                   -- published list read at the start of the iteration
  sw : Manager.Switch
  oldMaster : String
  optStopOk : Bool := true
  /-- the speed-up phase applies: `MasterTransition == "switchover"` (not set for worker requests) and semi-sync -/
  turbo : Bool := false
  turboOk : Bool := true
  optStop2Ok : Bool := true              -- the second `stopActiveNodeOptimization`, after the speed-up phase
  ro : String → Bool                     -- phase 1: the read-only request succeeded on h
  rejectOk : Bool := true
  io : String → Bool                     -- phase 2: IO thread stopped and replication not permanently broken
  lock1 : Bool := true
  positions : Option (List Pos)          -- positions of the frozen hosts (none = some read failed)
  mostRecentOnlineOk : Bool := true
  catchUpChangeOk : Bool := true
  catchUp : CatchUp := .caught
  lock2 : Bool := true
  cs2 : ClusterState                     -- view taken after catch-up
  newMasterOnlineOk : Bool := true
  repoint : String → Bool                -- phase 5: `performChangeMaster(h, newMaster)` succeeded
  oldStatus : OldMasterStatus := .notReplica
  setRecoveryOk : Bool := true
  stopSlaveOk : Bool := true
  resetOk : Bool := true
  writableOk : Bool := true
  eventsOk : Bool := true
  masterKeyOk : Bool := true

/-- `CheckAsyncSwitchAllowed` (async.go): `delay` = result of `CalcReplMonTSDelay` in seconds (none = a read failed) -/
def checkAsyncSwitchAllowed (cfg : Cfg) (sw : Manager.Switch) (delay : Option Int) : Bool :=
  if cfg.async && sw.causeAuto && cfg.asyncAllowedLag > 0 then
    match delay with
    | none => false
    | some d => decide (d * 1000000000 < cfg.asyncAllowedLag)
  else false

/-- `activeNodes` after "filter out old master as may hang" -/
def workList (i : In) : List String :=
  if i.sw.causeAuto && i.sw.from_ == i.oldMaster then i.active.filter (· != i.oldMaster) else i.active

def pingOk (cs : ClusterState) (h : String) : Option Bool := (cs.get? h).map (·.pingOk)

/-- hosts counted as frozen: both phases succeeded (the old master has no phase-2 entry) -/
def frozen (i : In) : List String :=
  (workList i).filter fun h =>
    (pingOk i.cs h == some true) && i.ro h && (h == i.oldMaster || i.io h)

def isSlavePermanentlyLost (st : ReplState) (executed : String) (mostRecent : GtidSet) : Bool :=
  st == .error || isSlaveAhead (parseD executed) mostRecent

/-- the part after the new master has been chosen -/
def promotePart (cfg : Cfg) (i : In) (newMaster : Pos) (mostRecent : Pos) (pre : List Step) : List Step :=
  let s0 := pre ++ [.chosen newMaster.host mostRecent.host]
  -- phase 4: catch up
  let (s1, go) : List Step × Bool :=
    if newMaster.host != mostRecent.host then
      if !i.mostRecentOnlineOk then (s0 ++ [.setOnline mostRecent.host false], false)
      else if !i.catchUpChangeOk then (s0 ++ [.setOnline mostRecent.host true, .changeMaster newMaster.host mostRecent.host false], false)
      else (s0 ++ [.setOnline mostRecent.host true, .changeMaster newMaster.host mostRecent.host true], true)
    else (s0, true)
  if !go then s1 else
  let s2 := s1 ++ [.catchUp i.catchUp]
  if !(i.catchUp == .caught || i.catchUp == .asyncEscape) then s2 else
  if !i.lock2 then s2 ++ [.lockCheck 2 false] else
  let s3 := s2 ++ [.lockCheck 2 true]
  match pingOk i.cs2 newMaster.host with
  | none => s3 ++ [.panic "clusterState[newMaster]"]
  | some p =>
  if !p || !(dubiousHAHosts i.cs2).isEmpty then s3 ++ [.restate false] else
  let s4 := s3 ++ [.restate true]
  -- phase 5
  if !i.newMasterOnlineOk then s4 ++ [.setOnline newMaster.host false] else
  let targets := (workList i).filter fun h => h != newMaster.host && (pingOk i.cs2 h == some true)
  let s5 := s4 ++ [.setOnline newMaster.host true] ++ targets.map fun h => Step.changeMaster h newMaster.host (i.repoint h)
  if (workList i).any (fun h => (pingOk i.cs2 h).isNone) then s5 ++ [.panic "clusterState[host]"] else
  if !targets.all i.repoint then s5 else
  -- old master: recovery mark unless it is a confirmed clean replica
  let needRecovery := match i.oldStatus with
    | .err | .notReplica => true
    | .replica st ex => isSlavePermanentlyLost st ex mostRecent.gtid
  let (s6, go6) : List Step × Bool :=
    if needRecovery then (s5 ++ [.setRecovery i.oldMaster i.setRecoveryOk], i.setRecoveryOk) else (s5, true)
  if !go6 then s6 else
  -- phase 6
  if !i.stopSlaveOk then s6 ++ [.stopSlave newMaster.host false] else
  if !i.resetOk then s6 ++ [.stopSlave newMaster.host true, .resetSlaveAll newMaster.host false] else
  let s7 := s6 ++ [.stopSlave newMaster.host true, .resetSlaveAll newMaster.host true, .updateActiveNodes]
  if !i.writableOk then s7 ++ [.setWritable newMaster.host false] else
  if !i.eventsOk then s7 ++ [.setWritable newMaster.host true, .reenableEvents false] else
  s7 ++ [.setWritable newMaster.host true, .reenableEvents true, .setMasterKey newMaster.host i.masterKeyOk]

/-- `performSwitchover` -/
def performSwitchover (cfg : Cfg) (i : In) : List Step :=
  if i.sw.to != "" && !i.active.contains i.sw.to then [.fail "replica is not active"] else
  if !(dubiousHAHosts i.cs).isEmpty then [.fail "dubious hosts"] else
  let wl := workList i
  -- a listed host / the recorded master that is not a registered host: the procedure fails before anything is touched
  -- (nil dereferences before fix: fc0b66f)
  if (wl ++ [i.oldMaster]).any (fun h => (pingOk i.cs h).isNone) then [.fail "host is not among cluster hosts"] else
  if !i.optStopOk then [.stopOptimization false] else
  let s0 : List Step := [.stopOptimization true]
  let turbo := i.turbo
  if turbo && !i.turboOk then s0 ++ [.turboPhase false] else
  -- the speed-up phase may have relaxed a replica: optimisation is switched off AGAIN before the freeze (fix: 97bff8a)
  if turbo && !i.optStop2Ok then s0 ++ [.turboPhase true, .stopOptimization false] else
  let s1 := if turbo then s0 ++ [.turboPhase true, .stopOptimization true] else s0
  -- phase 1
  let roOk := fun h => (pingOk i.cs h == some true) && i.ro h
  let s2 := s1 ++ wl.map fun h => Step.freezeRO h (roOk h)
  if wl.contains i.oldMaster && !roOk i.oldMaster && !i.sw.failoverType then
    (if i.rejectOk then s2 ++ [.rejectInside] else s2 ++ [.rejectInside, .fail "reject failed"]) else
  match pingOk i.cs i.oldMaster with
  | none => s2 ++ [.panic "clusterState[oldMaster]"]
  | some _ =>
  -- phase 2
  let s3 := s2 ++ (wl.filter (· != i.oldMaster)).map fun h => Step.stopIO h ((pingOk i.cs h == some true) && i.io h)
  let fr := frozen i
  let qOk := (Gen.SwitchHelper.CheckFailoverQuorum (sh cfg) i.active fr.length).isNone
  let s4 := s3 ++ [.quorumCheck fr.length qOk]
  if !qOk then s4 else
  if !i.lock1 then s4 ++ [.lockCheck 1 false] else
  let s5 := s4 ++ [.lockCheck 1 true]
  -- phase 3
  match i.positions with
  | none => s5 ++ [.positions false]
  | some ps =>
    if ps.length != fr.length then s5 ++ [.positions false] else
    let s6 := s5 ++ [.positions true]
    if ps.length == 1 && (ps.head?.map (·.host)) == some i.sw.from_ then s6 ++ [.fail "no suitable nodes to switch from"] else
    match findMostRecent ps with
    | .panic => s6 ++ [.panic "positions[0]"]
    | .splitBrain => s6 ++ [.writeEmerge]
    | .node mr =>
      if i.sw.to != "" then
        -- `app.cluster.Get(newMaster)` : any registered host; its position need not have been collected
        let nm : Pos := (ps.find? (·.host == i.sw.to)).getD { host := i.sw.to, gtid := [], lag := 0, prio := 0 }
        promotePart cfg i nm mr s6
      else if i.sw.from_ != "" then
        match mostDesirable cfg.priorityChoiceMaxLag (filterOutHost ps i.sw.from_) with
        | .node nm => promotePart cfg i nm mr s6
        | _ => s6 ++ [.fail "no highest priority node"]
      else promotePart cfg i mr mr s6

end Switchover
