/-
C08 — `stateLost` (internal/app/app.go 258-333) with `checkHAReplicasRunning` (164-225); the
outcome classes of `SetReadOnlyWithForce`, `IsWaitingSemiSyncAck` and `stopReplicationOnMaster` are
inputs.  Times are nanoseconds.
-/
import MysyncModel.NodeState

namespace Lost
open NS

/-- result of the liveness probe of one HA host (the local host is probed too) -/
inductive Probe
  | good          -- streaming from the local node (and semi-sync replica when semi-sync is configured)
  | notGood       -- any other answer or error that is not a time-out: stopped, wrong source, master, not semi-sync, refusing
  | timeout       -- `context.DeadlineExceeded` : unreachable
  deriving Repr, DecidableEq

/-- outcome class of a read-only attempt -/
inductive RoOutcome | ok | deadline | lockWait1205 | other
  deriving Repr, DecidableEq

inductive AckCheck | err | waiting | notWaiting
  deriving Repr, DecidableEq

structure Cfg where
  semiSync : Bool
  disableSetReadonlyOnLost : Bool
  inactivationDelay : Int
  deriving Repr, Inhabited

structure In where
  connected : Bool
  haCount : Nat                    -- len(HANodeHosts)
  localIsHA : Bool
  localIsMaster : Bool             -- `getLocalNodeState().IsMaster`
  probes : List Probe              -- one per HA host
  /-- `local.SemiSyncStatus()` : none = error, some n = rpl_semi_sync_master_wait_for_slave_count -/
  localWaitCount : Option Int
  timer : Option Int               -- ZKHALost[local]; none = zero
  now : Int                        -- clock when the timer is looked at
  firstRo : RoOutcome := .ok       -- master: first `SetReadOnlyWithForce`
  ack : AckCheck := .notWaiting
  stopReplOfflineOk : Bool := true -- `SetOffline`
  stopReplDisableOk : Bool := true -- `SemiSyncDisable`
  secondRoOk : Bool := true        -- the second `SetReadOnlyWithForce`, after semi-sync was switched off
  deriving Repr

inductive Act
  | setReadOnlyForce               -- `SetReadOnlyWithForce(excludeUsers, true)` on the local node
  | setReadOnly                    -- `SetReadOnly(true)` on the local node
  | checkWaitingAck
  | setOffline | semiSyncDisable   -- `stopReplicationOnMaster`
  | readGtid                       -- the final `GTIDExecutedParsed` (log only)
  deriving Repr, DecidableEq

inductive Next | candidate | lost
  deriving Repr, DecidableEq

structure Out where
  acts : List Act
  next : Next
  timer : Option Int
  deriving Repr

def available (ps : List Probe) : Int := (ps.filter (· == .good)).length
def unreachable (ps : List Probe) : Int := (ps.filter (· == .timeout)).length

/-- `checkHAReplicasRunning` : (replicasRunning, hasUnreachReplicas) -/
def replicasRunning (cfg : Cfg) (i : In) : Bool × Bool :=
  let unreach := decide (unreachable i.probes > 0)
  if cfg.semiSync then
    match i.localWaitCount with
    | none => (false, unreach)
    | some w => (decide (available i.probes ≥ w), unreach)
  else (decide (available i.probes ≥ (i.haCount : Int) - 1), unreach)

def stateLost (cfg : Cfg) (i : In) : Out :=
  if i.connected then { acts := [], next := .candidate, timer := none }
  else if i.haCount == 1 || !i.localIsHA then { acts := [], next := .lost, timer := i.timer }
  else if cfg.disableSetReadonlyOnLost then { acts := [], next := .lost, timer := i.timer }
  else
    let (running, hasUnreach) := replicasRunning cfg i
    if i.localIsMaster && running then { acts := [], next := .lost, timer := none }
    else
      let timer' : Option Int := if hasUnreach then (match i.timer with | some t => some t | none => some i.now) else i.timer
      let postpone := hasUnreach && (match timer' with | some t => decide (i.now - t ≤ cfg.inactivationDelay) | none => false)
      if postpone then { acts := [], next := .lost, timer := timer' }
      else if i.localIsMaster then
        match i.firstRo with
        | .ok | .other => { acts := [.setReadOnlyForce], next := .lost, timer := timer' }
        | .deadline | .lockWait1205 =>
          match i.ack with
          | .err => { acts := [.setReadOnlyForce, .checkWaitingAck], next := .lost, timer := timer' }
          | .notWaiting => { acts := [.setReadOnlyForce, .checkWaitingAck, .readGtid], next := .lost, timer := timer' }
          | .waiting =>
            if !i.stopReplOfflineOk then { acts := [.setReadOnlyForce, .checkWaitingAck, .setOffline], next := .lost, timer := timer' }
            else if !i.stopReplDisableOk then { acts := [.setReadOnlyForce, .checkWaitingAck, .setOffline, .semiSyncDisable], next := .lost, timer := timer' }
            else if !i.secondRoOk then { acts := [.setReadOnlyForce, .checkWaitingAck, .setOffline, .semiSyncDisable, .setReadOnlyForce], next := .lost, timer := timer' }
            else { acts := [.setReadOnlyForce, .checkWaitingAck, .setOffline, .semiSyncDisable, .setReadOnlyForce, .readGtid], next := .lost, timer := timer' }
      else { acts := [.setReadOnly, .readGtid], next := .lost, timer := timer' }

end Lost
