/-
C06 — the three coordination keys of a switch request (`switch`, `last_switch`,
`last_rejected_switch`) as a state machine driven by manager iterations (`Manager.stateManager`),
the CLI / external initiators (create-if-absent) and the operator's abort (delete).
-/
import MysyncModel.App.Manager

namespace SwitchLifecycle
open Manager NS

structure Keys where
  switch : Option Switch := none
  lastOk : Option Switch := none              -- last_switch
  lastRejected : Option Switch := none        -- last_rejected_switch
  deriving Repr, Inhabited, DecidableEq

/-- `CliSwitch` / an external worker / `IssueFailover`: atomic create-if-absent -/
def file (k : Keys) (req : Switch) : Keys × Bool :=
  match k.switch with
  | some _ => (k, false)                      -- ErrExists: "Another switchover in progress"
  | none => ({ k with switch := some req }, true)

/-- `CliAbort` -/
def abort (k : Keys) : Keys := { k with switch := none }

/-- effect of one step of a manager iteration on the keys (coordination writes succeed) -/
def applyStep (master : String) (now : Int) (k : Keys) (s : Step) : Keys :=
  match s, k.switch with
  | .switchTimedOut, some sw => { k with switch := none, lastRejected := some sw }
  | .switchRejected, some sw => { k with switch := none, lastRejected := some sw }
  | .switchFailed, some sw => { k with switch := some { sw with runCount := sw.runCount + 1 } }
  | .switchFinished, some sw => { k with switch := none, lastOk := some sw }
  | .switchPerformed .abortedMeanwhile, _ => { k with switch := none }   -- it was the operator (or an inner rejection) who removed it
  | .issueFailover, _ => (file k { from_ := master, causeAuto := true, failoverType := true, initiatedAt := some now }).1
  | _, _ => k

/-- one manager iteration reading the request from the keys -/
def tick (cfg : Cfg) (i : In) (k : Keys) : Keys :=
  let i' := { i with sw := match k.switch with | some sw => .record sw | none => .absent }
  (stateManager cfg i').steps.foldl (applyStep (i.master.getD "") i.now) k

/-- the iteration is made by an active manager outside (full) maintenance and can read everything -/
def ActiveManager (i : In) : Prop :=
  i.connected = true ∧ i.lockHeld = true ∧ i.dcsStateErr = false ∧ i.master.isSome ∧ i.activeNodesErr = false ∧
  (i.maint = .absent ∨ i.maint = .err false ∨ i.maint = .record true true false) ∧ i.startOk = true

def timedOut (cfg : Cfg) (now : Int) (sw : Switch) : Bool :=
  match sw.initiatedAt with
  | some t => decide (now - t > cfg.switchoverTimeout)
  | none => false

def overLimit (cfg : Cfg) (sw : Switch) : Bool :=
  !sw.failoverType && decide (cfg.switchoverMaxAttempts > 0) && decide (sw.runCount ≥ cfg.switchoverMaxAttempts)

end SwitchLifecycle
