/-
C04 — `calcActiveNodes` (app.go 828), `calcActiveNodesChanges` (898), `updateActiveNodes` (972-1089),
`canShrinkActiveNodes`, `adjustSemiSyncOnMaster`, `enable/disableSemiSyncOnSlave`, `SetRecovery`.

`updateActiveNodes` is modelled as a sequential procedure over a small semi-sync world: every
mutating call can fail (oracle `fails`), the emitted trace is the list of calls with their results,
and a crash is a prefix of that trace.  Times are nanoseconds.
-/
import MysyncModel.NodeState
import MysyncModel.GtidParse
import MysyncModel.Generated.SwitchHelper

namespace ActiveNodes
open NS Gtid

structure Cfg where
  semiSync : Bool
  waitCount : Int                         -- rpl_semi_sync_master_wait_for_slave_count
  inactivationDelay : Int
  semiSyncEnableLag : Int                 -- bytes
  masterFirst : Bool                      -- master_first_adjust_ss_order
  deriving Repr, Inhabited

def sh (cfg : Cfg) : Gen.SwitchHelper.SwitchHelper :=
  { priorityChoiceMaxLag := 0, rplSemiSyncMasterWaitForSlaveCount := cfg.waitCount, SemiSync := cfg.semiSync }

def req (cfg : Cfg) (l : List String) : Int := Gen.SwitchHelper.GetRequiredWaitSlaveCount (sh cfg) l

abbrev Timers := List (String × Int)      -- NodeFailedAt (non-zero entries only)

def Timers.get? (t : Timers) (h : String) : Option Int :=
  match t with
  | [] => none
  | (k, v) :: r => if k = h then some v else Timers.get? r h

def Timers.set (t : Timers) (h : String) (v : Int) : Timers := (h, v) :: t.filter (·.1 != h)
def Timers.clean (t : Timers) (h : String) : Timers := t.filter (·.1 != h)

structure CalcIn where
  cs : ClusterState                       -- manager's view, in `range` order
  dcs : ClusterState                      -- health records
  oldActive : List String
  master : String
  recovery : Option (List String)         -- `GetHostsOnRecovery` : none = error
  mgtid : Option String                   -- master's gtid_executed : none = error
  muuid : Option String                   -- master's server_uuid : none = error
  timers : Timers
  now : Int
  deriving Repr

inductive Membership
  | master | cascade | onRecovery
  | dubiousKept | dubiousNotMember        -- unreachable + dubious / health lock held: kept only if it was a member
  | failingKept | failingNotMember        -- unreachable for less than the inactivation delay
  | down                                  -- unreachable for the delay or longer: evicted
  | lostMaster                            -- reachable, no replica status
  | notReplicatingOrSplitBrained
  | replicating
  | panic (site : String)
  deriving Repr, DecidableEq

def Membership.isMember : Membership → Bool
  | .master | .dubiousKept | .failingKept | .replicating => true
  | _ => false

/-- classification of one host by the loop body of `calcActiveNodes`; returns the new timer value of
the host (none = cleaned / untouched-zero) -/
def classify (delay : Int) (i : CalcIn) (host : String) (node : NodeState) : Membership × Option Int :=
  let t := i.timers.get? host
  if host == i.master then (.master, t)
  else if node.isCascade then (.cascade, t)
  else if (match i.recovery with | some l => l.contains host | none => false) then (.onRecovery, t)
  else if !node.pingOk then
    match i.dcs.get? host with
    | none => (.panic "clusterStateDcs[host]", t)
    | some d =>
      if node.pingDubious || d.pingOk then
        (if i.oldActive.contains host then .dubiousKept else .dubiousNotMember, t)
      else
        let t' := match t with | some x => x | none => i.now
        if i.now - t' < delay then
          (if i.oldActive.contains host then .failingKept else .failingNotMember, some t')
        else (.down, some t')
  else
    match node.slave with
    | none => (.lostMaster, none)
    | some sl =>
      match parse sl.executed, i.mgtid.bind parse, i.muuid with
      | some sg, some mg, some mu =>
        if sl.state != .running || isSplitBrained sg mg mu then (.notReplicatingOrSplitBrained, none)
        else (.replicating, none)
      | none, _, _ => (.panic "ParseGtidSet", none)
      | _, _, _ => (.notReplicatingOrSplitBrained, none)

def insertSortedStr (x : String) : List String → List String
  | [] => [x]
  | y :: r => if x < y then x :: y :: r else y :: insertSortedStr x r

def sortStr (l : List String) : List String := l.foldr insertSortedStr []

/-- `calcActiveNodes` : none = error return; the classification of every visited host is returned too -/
def calcActiveNodes (delay : Int) (i : CalcIn) : Option (List String × List (String × Membership) × Timers) :=
  match i.recovery, i.mgtid, i.muuid with
  | some _, some _, some _ =>
    let cls := i.cs.map fun (h, n) => (h, classify delay i h n)
    let members := (cls.filter fun (_, m, _) => m.isMember).map (·.1)
    let timers := cls.foldl (fun (t : Timers) (e : String × Membership × Option Int) =>
      match e.2.2 with
      | some v => t.set e.1 v
      | none => if e.2.1 == .lostMaster || e.2.1 == .notReplicatingOrSplitBrained || e.2.1 == .replicating then t.clean e.1 else t) i.timers
    some (sortStr members, cls.map (fun (h, m, _) => (h, m)), timers)
  | _, _, _ => none

/-- `filterOut a b` -/
def filterOut (a b : List String) : List String := a.filter fun x => !b.contains x

/-- `calcLagBytes` -/
def calcLagBytes (binlogs : List (String × Int)) (masterFile : String) (masterPos : Int) : Int :=
  binlogs.foldl (fun lag (name, size) =>
    if name > masterFile then lag + size
    else if masterFile == name then (if size > masterPos then lag + (size - masterPos) else lag)
    else lag) 0

structure Changes where
  becomeActive : List String
  becomeInactive : List String
  dataLag : List String
  deriving Repr, DecidableEq

/-- zero-padded position as `GetCurrentBinlogPosition` prints it (`%s%019d`) -/
def posKey (file : String) (pos : Int) : String :=
  let d := toString pos.toNat
  file ++ String.ofList (List.replicate (19 - d.length) '0') ++ d

/-- `calcActiveNodesChanges`; `binlogs` = `SHOW BINARY LOGS` at the master (none = error), `readPos` =
the remembered IO positions (`slaveReadPositions`).  Returns none on error. -/
def calcChanges (cfg : Cfg) (cs : ClusterState) (active oldActive : List String) (master : String)
    (binlogs : Option (List (String × Int))) (readPos : List (String × String)) : Option Changes :=
  let syncReplicas := (cs.filter fun (_, s) => match s.semiSync with | some ss => ss.slaveEnabled | none => false).map (·.1)
  let dead := (cs.filter fun (_, s) => !s.pingOk || s.slave.isNone).map (·.1)
  let ba0 := filterOut (filterOut active syncReplicas) dead
  let bi0 := filterOut syncReplicas active
  let ba1 := if oldActive == [master] && ba0.isEmpty then active.filter (· != master) else ba0
  if ba1.isEmpty then some ⟨ba1, bi0, []⟩
  else match binlogs with
    | none => none
    | some bl =>
      let step := fun (acc : List String × List String) (h : String) =>
        match (cs.get? h).bind (·.slave) with
        | none => acc                                   -- (nil dereference in the code; hosts in `ba1` have a slave state except via the lone-master rule)
        | some sl =>
          let lag := calcLagBytes bl sl.logFile sl.logPos
          if lag > cfg.semiSyncEnableLag then
            let newPos := posKey sl.logFile sl.logPos
            let oldPos := (readPos.lookup h).getD ""
            if newPos ≤ oldPos then (acc.1 ++ [h], acc.2) else (acc.1, acc.2 ++ [h])
          else acc
      let (inact, lagging) := ba1.foldl step ([], [])
      some ⟨filterOut (filterOut ba1 lagging) (bi0 ++ inact), bi0 ++ inact, lagging⟩

/-! ### the semi-sync world and `updateActiveNodes` as a sequential procedure -/

inductive Call
  | pingMaster
  | pingMasterShrink                     -- the second ping, inside `canShrinkActiveNodes`
  | ssDisable (h : String)
  | ssSetSlave (h : String)
  | ssSetMaster (h : String)
  | ssWaitCount (h : String) (n : Int)
  | restartIO (h : String)               -- STOP IO_THREAD ; START IO_THREAD
  | restartReplica (h : String)          -- STOP REPLICA ; START REPLICA
  | setDefaultSettings (h : String)
  | optEnable (h : String)
  | publish (l : List String)            -- SetActiveNodes
  deriving Repr, DecidableEq

structure Ev where
  call : Call
  ok : Bool
  deriving Repr, DecidableEq

/-- ground truth that the invariants (a) and (b) speak about -/
structure World where
  slaveEnabled : List String             -- hosts with rpl_semi_sync_slave_enabled = 1
  masterEnabled : Bool
  waitCount : Int
  published : List String
  deriving Repr, DecidableEq

def effWait (w : World) : Int := if w.masterEnabled then w.waitCount else 0

/-- effect of a successful call (a failed call has no effect) -/
def World.apply (w : World) (master : String) : Call → World
  | .ssDisable h => if h == master then { w with masterEnabled := false, slaveEnabled := w.slaveEnabled.filter (· != h) }
                    else { w with slaveEnabled := w.slaveEnabled.filter (· != h) }
  | .ssSetSlave h => { w with slaveEnabled := if w.slaveEnabled.contains h then w.slaveEnabled else h :: w.slaveEnabled }
  | .ssSetMaster h => if h == master then { w with masterEnabled := true, slaveEnabled := w.slaveEnabled.filter (· != h) } else w
  | .ssWaitCount h n => if h == master then { w with waitCount := n } else w
  | .publish l => { w with published := l }
  | _ => w

def World.applyEv (w : World) (master : String) (e : Ev) : World := if e.ok then w.apply master e.call else w

def World.run (w : World) (master : String) (tr : List Ev) : World := tr.foldl (fun w e => w.applyEv master e) w

/-- (a) every reachable HA replica with semi-sync acknowledgement enabled is in the published list -/
def invA (reachableReplicas : List String) (w : World) : Bool :=
  reachableReplicas.all fun h => !w.slaveEnabled.contains h || w.published.contains h

/-- (b) the master waits for at least the number implied by the list -/
def invB (cfg : Cfg) (w : World) : Bool := decide (effWait w ≥ req cfg w.published)

structure UpdIn where
  cs : ClusterState
  master : String
  oldActive : List String
  active : List String                   -- result of `calcActiveNodes`
  changes : Changes                      -- result of `calcActiveNodesChanges`
  /-- is the replica ahead of the master's snapshot (→ full replica restart instead of IO thread) -/
  ahead : String → Bool
  /-- outcome oracle: does this call fail? -/
  fails : Call → Bool

/-- `adjustSemiSyncOnMaster` : calls emitted (stops at the first failure) and success -/
def adjustMaster (i : UpdIn) (ms : Option SemiSyncState) (wsc : Int) : List Ev × Bool :=
  match ms with
  | none => ([], false)                                           -- "semi-sync state is empty"
  | some ss =>
    if wsc == 0 then
      if ss.masterEnabled then
        let c := Call.ssDisable i.master
        ([⟨c, !i.fails c⟩], !i.fails c)
      else ([], true)
    else
      let c1 := Call.ssWaitCount i.master wsc
      let c2 := Call.ssSetMaster i.master
      let e1 : List Ev := if ss.waitSlaveCount != wsc then [⟨c1, !i.fails c1⟩] else []
      if ss.waitSlaveCount != wsc && i.fails c1 then (e1, false)
      else if !ss.masterEnabled then (e1 ++ [⟨c2, !i.fails c2⟩], !i.fails c2)
      else (e1, true)

/-- the loop over `becomeActive` : returns trace, remaining wait count and remaining list -/
def enableLoop (i : UpdIn) : List String → Int → List String → List Ev × Int × List String
  | [], wsc, active => ([], wsc, active)
  | h :: rest, wsc, active =>
    let c := Call.ssSetSlave h
    if i.fails c then
      let (tr, w', a') := enableLoop i rest (wsc - 1) (active.filter (· != h))
      (⟨c, false⟩ :: tr, w', a')
    else
      let r := if i.ahead h then Call.restartReplica h else Call.restartIO h
      if i.fails r then
        let (tr, w', a') := enableLoop i rest (wsc - 1) (active.filter (· != h))
        (⟨c, true⟩ :: ⟨r, false⟩ :: tr, w', a')
      else
        let d := Call.setDefaultSettings h
        let (tr, w', a') := enableLoop i rest wsc active
        (⟨c, true⟩ :: ⟨r, true⟩ :: ⟨d, !i.fails d⟩ :: tr, w', a')

/-- `canShrinkActiveNodes` + `SetActiveNodes` -/
def publishPart (i : UpdIn) (active : List String) : List Ev :=
  let removed := filterOut i.oldActive active
  if removed.isEmpty then [⟨.publish active, !i.fails (.publish active)⟩]
  else if i.fails .pingMasterShrink then [⟨.pingMasterShrink, false⟩]
  else [⟨.pingMasterShrink, true⟩, ⟨.publish active, !i.fails (.publish active)⟩]

/-- `updateActiveNodes` with semi-sync configured, from the master ping on (app.go 1024-1088) -/
def updateSemiSync (cfg : Cfg) (i : UpdIn) : List Ev :=
  let ms := (i.cs.get? i.master).bind (·.semiSync)
  let oldWsc : Int := match ms with | some ss => if ss.masterEnabled then ss.waitSlaveCount else 0 | none => 0
  let wsc := req cfg (filterOut i.active i.changes.dataLag)
  if i.fails .pingMaster then [⟨.pingMaster, false⟩]
  else
    let before0 := decide (wsc < oldWsc)
    let after0 := decide (wsc > oldWsc)
    let (before, after) := if cfg.masterFirst then (before0, after0) else (after0, before0)
    let (t1, ok1) := if before then adjustMaster i ms wsc else ([], true)
    if !ok1 then ⟨.pingMaster, true⟩ :: t1
    else
      let t2 : List Ev := i.changes.becomeInactive.flatMap fun h =>
        let c := Call.ssDisable h
        if i.fails c then [⟨c, false⟩] else [⟨c, true⟩, ⟨.restartIO h, !i.fails (.restartIO h)⟩]
      let t3 : List Ev := i.changes.dataLag.flatMap fun h =>
        let c := Call.ssDisable h
        if i.fails c then [⟨c, false⟩] else [⟨c, true⟩, ⟨.optEnable h, !i.fails (.optEnable h)⟩]
      let (t4, wsc', active') := enableLoop i i.changes.becomeActive wsc i.active
      let t5 : List Ev := if after then (adjustMaster i ms wsc').1 else []
      ⟨.pingMaster, true⟩ :: t1 ++ t2 ++ t3 ++ t4 ++ t5 ++ publishPart i active'

/-- `updateActiveNodes` without semi-sync: switch semi-sync off where it is on, then publish -/
def updateAsync (i : UpdIn) : List Ev :=
  let t1 : List Ev := i.cs.flatMap fun (h, s) =>
    match s.semiSync with
    | some ss => if ss.masterEnabled || ss.slaveEnabled then [⟨.ssDisable h, !i.fails (.ssDisable h)⟩] else []
    | none => []
  t1 ++ publishPart i i.active

/-- `SetRecovery(host)` : the list without the host is published first, then the mark is created -/
def setRecoveryWrites (active : List String) (host : String) : List String × String :=
  (active.filter (· != host), host)

end ActiveNodes
