/-
C19 — replication optimisation: `Syncer.Sync` (optimization/syncer.go), `Controller.Enable/Disable/
DisableAll/isOptimizedDuringWaiting` (controller.go), the registry adapter (app/dcs/optimization.go),
`stopActiveNodeOptimization` (app.go 2316).  Lags and marks are whole seconds.

`Sync` is modelled as a sequential procedure over a small world (registry + per-host durability
settings) with a failure oracle; the trace is the list of calls with results, a crash is a prefix.
-/
import MysyncModel.NodeState
import MysyncModel.Generated.ReplSettings

namespace Optimization
open NS

abbrev RS := Gen.ReplSettings.ReplicationSettings

def optimal : RS := ⟨2, 1000⟩
def safeDefault : RS := ⟨1, 1⟩

structure Cfg where
  lowMark : Int                        -- low_replication_mark (seconds)
  highMark : Int                       -- high_replication_mark
  deriving Repr, Inhabited

inductive Class | malfunctioning | optimized | optimizing | disabled
  deriving Repr, DecidableEq

/-- one registered host as `getClusterHostsState` sees it -/
structure RegHost where
  name : String
  /-- registry record: none = `GetState` returned nil (the znode vanished) -/
  enabled : Option Bool
  isMaster : Bool
  /-- replication lag from the cluster view: none = no slave state or unknown lag -/
  lag : Option Int
  /-- `ReplicationSettings` of the view: none = nil pointer -/
  settings : Option RS
  /-- `cluster.Get(host)` is non-nil (the host is still registered in the cluster) -/
  hasNode : Bool := true
  deriving Repr

inductive Classified | skip | cls (c : Class) | panic
  deriving Repr, DecidableEq

def toRS (s : ReplSettings) : RS := ⟨s.flushLog, s.syncBinlog⟩

/-- the `switch` of `getClusterHostsState` -/
def classify (cfg : Cfg) (masterRs : RS) (h : RegHost) : Classified :=
  match h.enabled with
  | none => .skip
  | some en =>
    let lost := h.lag.isNone
    let near := match h.lag with | some l => decide (l < cfg.highMark) | none => false
    let complete := match h.lag with | some l => decide (l < cfg.lowMark) | none => false
    if h.isMaster || lost then .cls .malfunctioning
    else if (near && !en) || (complete && en) then .cls .optimized
    else if en then .cls .optimizing
    else match h.settings with
      | none => .panic                                     -- nil `ReplicationSettings` dereference
      | some s => if !(Gen.ReplSettings.Equal s masterRs) then .cls .optimizing else .cls .disabled

inductive Call
  | restore (h : String)               -- `SetReplicationSettings(masterRs)` : two SET GLOBAL statements
  | deregister (h : String)            -- `DeleteHosts(h)`
  | relax (h : String)                 -- `OptimizeReplication()`
  | readSettings (h : String)          -- `GetReplicationSettings()` of `syncNodeOptions`
  | register (h : String)              -- `CreateHosts(h)` (Controller.Enable)
  deriving Repr, DecidableEq

structure Ev where
  call : Call
  ok : Bool
  deriving Repr, DecidableEq

/-- stop at the first failing call -/
def runCalls (fails : Call → Bool) : List Call → List Ev × Bool
  | [] => ([], true)
  | c :: r => if fails c then ([⟨c, false⟩], false) else
      let (t, ok) := runCalls fails r
      (⟨c, true⟩ :: t, ok)

structure SyncIn where
  hosts : List RegHost                 -- in `GetHosts` order
  masterRs : RS
  /-- current settings of a host as `GetReplicationSettings` returns them (for `syncNodeOptions`) -/
  current : String → RS
  fails : Call → Bool

def ofClass (cfg : Cfg) (i : SyncIn) (c : Class) : List RegHost :=
  i.hosts.filter fun h => classify cfg i.masterRs h == .cls c

/-- `syncNodeOptions` -/
def syncNodeOptions (i : SyncIn) (h : RegHost) : List Ev :=
  if i.fails (.readSettings h.name) then [⟨.readSettings h.name, false⟩]
  else if Gen.ReplSettings.CanBeOptimized (i.current h.name) then [⟨.readSettings h.name, true⟩, ⟨.relax h.name, !i.fails (.relax h.name)⟩]
  else [⟨.readSettings h.name, true⟩]

inductive SyncOut
  | trace (t : List Ev)
  | panic (t : List Ev)

/-- `Syncer.Sync` after the registry has been read -/
def sync (cfg : Cfg) (i : SyncIn) : SyncOut :=
  if i.hosts.any (fun h => classify cfg i.masterRs h == .panic) then .panic [] else
  let toDisable := ofClass cfg i .optimized ++ ofClass cfg i .malfunctioning
  -- disableNodes: restore all (hosts without a node handle are skipped), then deregister all
  let (t1, ok1) := runCalls i.fails ((toDisable.filter (·.hasNode)).map fun h => Call.restore h.name)
  if !ok1 then .trace t1 else
  let (t2, ok2) := runCalls i.fails (toDisable.map fun h => Call.deregister h.name)
  if !ok2 then .trace (t1 ++ t2) else
  let optimizing := ofClass cfg i .optimizing
  let disabled := ofClass cfg i .disabled
  match optimizing with
  | first :: (second :: rest) =>
    let (t3, ok3) := runCalls i.fails (((second :: rest).filter (·.hasNode)).map fun h => Call.restore h.name)
    if !ok3 then .trace (t1 ++ t2 ++ t3)
    else if !first.hasNode then .panic (t1 ++ t2 ++ t3)
    else .trace (t1 ++ t2 ++ t3 ++ syncNodeOptions i first)
  | [only] => if !only.hasNode then .panic (t1 ++ t2) else .trace (t1 ++ t2 ++ syncNodeOptions i only)
  | [] =>
    match disabled with
    | d :: _ => if !d.hasNode then .panic (t1 ++ t2) else .trace (t1 ++ t2 ++ [⟨.relax d.name, !i.fails (.relax d.name)⟩])
    | [] => .trace (t1 ++ t2)

/-! ### world: who is registered, who runs with which settings -/

structure World where
  registered : List String
  settings : List (String × RS)
  deriving Repr

def World.get (w : World) (h : String) : RS := (w.settings.lookup h).getD safeDefault
def World.set (w : World) (h : String) (s : RS) : World := { w with settings := (h, s) :: w.settings.filter (·.1 != h) }

def World.apply (w : World) (masterRs : RS) : Ev → World
  | ⟨.restore h, true⟩ => w.set h masterRs
  | ⟨.relax h, true⟩ => w.set h optimal
  | ⟨.deregister h, true⟩ => { w with registered := w.registered.filter (· != h) }
  | ⟨.register h, true⟩ => { w with registered := if w.registered.contains h then w.registered else w.registered ++ [h] }
  | _ => w

def World.run (w : World) (masterRs : RS) (t : List Ev) : World := t.foldl (fun w e => w.apply masterRs e) w

/-- replicas (not the master) whose settings differ from the master's -/
def World.relaxed (w : World) (masterRs : RS) (hosts : List String) : List String :=
  hosts.filter fun h => !(Gen.ReplSettings.Equal (w.get h) masterRs)

/-- `Controller.disable` / `DisableAll` over the hosts found in the registry -/
def disableAll (registry : List String) (given : List String) (fails : Call → Bool) : List Ev :=
  registry.flatMap fun h =>
    if !given.contains h then []                            -- "host was not found": skipped
    else if fails (.restore h) then [⟨.restore h, false⟩]   -- the restore failed: the host stays registered
    else [⟨.restore h, true⟩, ⟨.deregister h, !fails (.deregister h)⟩]

/-- `isOptimizedDuringWaiting` : (answer, deregistered?) ; `lagNs` is compared with the mark in
NANOSECONDS units as the code does (`float64(LowReplicationMark)` — a `time.Duration`) -/
def isOptimizedDuringWaiting (lowMarkNs : Int) (state : Option Bool) (lag : Option Int) : Bool × Bool :=
  match state with
  | none => (true, false)
  | some false => (true, false)
  | some true =>
    match lag with
    | some l => if l < lowMarkNs then (true, true) else (false, false)
    | none => (false, false)

end Optimization
