/-
The observation layer: `getNodeState` (app.go ~2156) — how the per-node snapshot that every decision model takes as
input is built from a server, probe by probe, and what is left of it when a probe fails.

`Truth` is what the server would answer; `failAt` is the first probe that fails (error / time-out), `pingAgain` the
outcome of the second ping that is made after a later probe failed.
-/
import MysyncModel.NodeState

namespace Observe
open NS

structure ReplTruth where
  source : String
  io : Bool
  sql : Bool
  ioErrno : Int := 0
  sqlErrno : Int := 0
  executed : String := ""
  retrieved : String := ""
  lag : Option Int := none
  logFile : String := ""
  logPos : Int := 0
  deriving Repr

structure Truth where
  readOnly : Bool
  superReadOnly : Bool
  offline : Bool
  repl : Option ReplTruth               -- none = `SHOW REPLICA STATUS` has no row
  executed : String
  semiMaster : Bool
  semiSlave : Bool
  waitCount : Int
  flushLog : Int := 1
  syncBinlog : Int := 1
  deriving Repr

/-- the probes in the order `getNodeState` makes them -/
inductive Probe | ping | isReadOnly | isOffline | replicaStatus | replSettings | lagOrGtid | semiSync
  deriving Repr, DecidableEq

def Probe.idx : Probe → Nat
  | .ping => 0 | .isReadOnly => 1 | .isOffline => 2 | .replicaStatus => 3 | .replSettings => 4 | .lagOrGtid => 5 | .semiSync => 6

/-- the probe `p` is reached and answered -/
def answered (failAt : Option Probe) (p : Probe) : Bool :=
  match failAt with
  | none => true
  | some f => decide (p.idx < f.idx)

def replState (r : ReplTruth) : ReplState :=
  if r.io && r.sql then .running
  else if r.ioErrno != 0 || r.sqlErrno != 0 then .error
  else .stopped

/-- `getNodeState`; `cascade` = the registry says the host is a cascade replica; `pingFailDubious` = the failing ping's
error is of the dubious kind; `pingAgainOk` = result of the second ping made after a later probe failed -/
def getNodeState (t : Truth) (cascade : Bool) (failAt : Option Probe) (pingFailDubious : Bool) (pingAgainOk : Bool) : NodeState :=
  let ans := answered failAt
  let base : NodeState := { isCascade := cascade }       -- the registry flag is read last, whatever happened before
  if !ans .ping then { base with pingOk := false, pingDubious := pingFailDubious }
  else
    let s1 : NodeState := { base with pingOk := (if failAt.isSome then pingAgainOk else true),
                                      pingDubious := (failAt.isSome && !pingAgainOk && pingFailDubious) }
    if !ans .isReadOnly then s1 else
    let s2 := { s1 with isReadOnly := t.readOnly, isSuperReadOnly := t.superReadOnly }
    if !ans .isOffline then s2 else
    let s3 := { s2 with isOffline := t.offline }
    if !ans .replicaStatus then s3 else
    if !ans .replSettings then s3 else
    let s4 := { s3 with replSettings := some { flushLog := t.flushLog, syncBinlog := t.syncBinlog } }
    let s5 : NodeState := match t.repl with
      | some r =>
        { s4 with isMaster := false,
                  slave := some { masterHost := r.source, retrieved := r.retrieved, executed := r.executed, state := replState r,
                                  logFile := r.logFile, logPos := r.logPos, ioErrno := r.ioErrno, sqlErrno := r.sqlErrno,
                                  lag := if ans .lagOrGtid then r.lag else none } }
      | none =>
        { s4 with isMaster := true, masterExecuted := if ans .lagOrGtid then some t.executed else some "" }
    if !ans .lagOrGtid then s5 else
    if !ans .semiSync then s5 else
    { s5 with semiSync := some { masterEnabled := t.semiMaster, slaveEnabled := t.semiSlave, waitSlaveCount := t.waitCount } }

end Observe
