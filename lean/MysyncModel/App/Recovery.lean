/-
C11 — `checkRecovery` (internal/app/recovery.go), `isSlavePermanentlyLost` (util.go), `SetRecovery`
(app_dcs.go), the stale-master branch of `repairSlaveNode` (app.go 1820-1846) and
`repairMasterOfflineMode` (1585).  Times are nanoseconds; `StuckWaitTime` is one minute.
-/
import MysyncModel.NodeState
import MysyncModel.GtidParse

namespace Recovery
open NS Gtid

def stuckWaitTime : Int := 60 * 1000000000

inductive LocalStatus
  | err                                     -- `GetReplicaStatus` failed
  | notReplica                              -- no row: the node is (still) a master
  | replica (state : ReplState) (executed : String)
  deriving Repr, DecidableEq

inductive Stuck | err | yes | no
  deriving Repr, DecidableEq

inductive Act
  | setStuckTimer | cleanStuckTimer
  | writeResetup
  | clearRecovery (ok : Bool)
  | panic (site : String)
  deriving Repr, DecidableEq

structure In where
  marked : Bool                             -- `IsRecoveryNeeded(hostname)` (any read error counts as "not marked")
  resetupFile : Bool
  status : LocalStatus
  /-- the recorded master: none = read error -/
  master : Option String
  updateHostsOk : Bool := true
  masterRegistered : Bool := true           -- `cluster.Get(master)` is non-nil
  /-- master's gtid_executed: none = error -/
  mgtid : Option String
  stuck : Stuck := .no
  stuckTimer : Option Int := none
  now : Int
  localHost : String
  /-- `IsReadOnly` of the local node: none = error -/
  readOnly : Option Bool := some true
  clearOk : Bool := true
  deriving Repr

/-- `isSlavePermanentlyLost` -/
def permanentlyLost (state : ReplState) (executed : String) (mgtid : String) : Bool :=
  state == .error || isSlaveAhead (parseD executed) (parseD mgtid)

/-- `checkRecovery` -/
def checkRecovery (i : In) : List Act :=
  if !i.marked then [] else
  if i.resetupFile then [] else
  match i.status with
  | .err => []
  | st =>
  match i.master with
  | none => []
  | some master =>
  if !i.updateHostsOk then [] else
  if !i.masterRegistered then [] else                          -- logged, nothing done (nil dereference before fix: 6fbf603)
  match i.mgtid with
  | none => []
  | some mg =>
  let stuck := i.stuck == .yes
  let t1 : List Act := if stuck then (if i.stuckTimer.isNone then [.setStuckTimer] else []) else [.cleanStuckTimer]
  let timer := if stuck then (match i.stuckTimer with | some t => t | none => i.now) else 0
  if st == .notReplica && !stuck then t1                      -- "waiting for manager to turn us to a new master"
  else if stuck && master != i.localHost then
    if i.now - timer < stuckWaitTime then t1
    else t1 ++ [.writeResetup, .cleanStuckTimer]
  else match st with
    | .notReplica => t1                                        -- stuck, still recorded master, not a replica: waits (nil dereference before fix: ccc87e5)
    | .err => t1
    | .replica state executed =>
      if permanentlyLost state executed mg then t1 ++ [.writeResetup]
      else match i.readOnly with
        | none => t1
        | some false => t1                                     -- "host is not read-only, we should wait for it"
        | some true => t1 ++ [.clearRecovery i.clearOk]

/-- `SetRecovery(host)` as coordination writes: first the list without the host, then the mark -/
inductive Write | setActiveNodes (l : List String) | createRecoveryMark (h : String)
  deriving Repr, DecidableEq

def setRecovery (active : Option (List String)) (host : String) (setOk markOk : Bool) : List Write × Bool :=
  match active with
  | none => ([], false)
  | some l =>
    if !setOk then ([.setActiveNodes (l.filter (· != host))], false)
    else ([.setActiveNodes (l.filter (· != host)), .createRecoveryMark host], markOk)

/-- the stale-master branch of `repairSlaveNode`: a reachable non-recorded host that reports master role -/
inductive StaleAct
  | setReadOnly | setOffline | semiSyncDisable | changeMaster (to : String) | setRecovery
  deriving Repr, DecidableEq

def repairStaleMaster (st : NodeState) (master : String) : List StaleAct :=
  (if !st.isReadOnly then [StaleAct.setReadOnly] else []) ++
  (if st.isMaster then [.setOffline, .semiSyncDisable, .changeMaster master, .setRecovery] else [])

end Recovery
