/-
C16 — cascade replicas: `findBestStreamFrom` (app.go ~2035) and `repairCascadeNode` (~1892-2013).
-/
import MysyncModel.NodeState
import MysyncModel.GtidParse

namespace Cascade
open NS Gtid

/-- `map[string]CascadeNodeConfiguration` : host ↦ stream_from -/
abbrev Topology := List (String × String)

def streamFromOf (topo : Topology) (h : String) : String :=
  match topo with
  | [] => ""
  | (k, v) :: r => if k = h then v else streamFromOf r h

inductive BSF
  | host (h : String)
  | panic (site : String)     -- nil-map-entry dereference
  | outOfFuel
  deriving Repr, DecidableEq

/-- `hasReasonableLag` -/
def reasonableLag (reasonable : Int) (c : NodeState) : Bool :=
  c.isMaster || (match c.slave with
    | some s => s.state == .running && (match s.lag with | some l => decide (l < reasonable) | none => false)
    | none => false)

/-- the `for` loop of `findBestStreamFrom`; `det` is the loop detector, most recent element first -/
def bsfLoop (reasonable : Int) (self : String) (cs : ClusterState) (master : String) (topo : Topology) :
    Nat → List String → BSF
  | 0, _ => .outOfFuel
  | fuel + 1, det =>
    let host := det.headD self
    let streamFrom := streamFromOf topo host
    if streamFrom == "" then .host master
    else if det.contains streamFrom then .host master                 -- loop in stream_from references
    else
      -- `if len(loopDetector) == 1` : already streaming from the configured host
      let already :=
        det.length == 1 &&
        (match cs.get? self with
         | some me => (match me.slave with
            | some s => s.state == .running && s.masterHost == streamFrom
            | none => false)
         | none => false)
      if det.length == 1 && (cs.get? self).isNone then .panic "clusterState[node.Host()]"
      else if already then .host streamFrom
      else match cs.get? streamFrom with
        | none => .host master          -- unregistered stream_from: fall back to the master (a nil dereference before fix: 0b684d2)
        | some c =>
          if c.pingOk && !c.isOffline && reasonableLag reasonable c then .host streamFrom
          else bsfLoop reasonable self cs master topo fuel (streamFrom :: det)

/-- `findBestStreamFrom`; the fuel `topo.length + 2` always suffices (theorem `bsf_total`) -/
def findBestStreamFrom (reasonable : Int) (self : String) (cs : ClusterState) (master : String) (topo : Topology) : BSF :=
  bsfLoop reasonable self cs master topo (topo.length + 2) [self]

/-- result of the fresh `GetReplicaStatus` made after stopping replication -/
inductive Fresh
  | err
  | noRow                     -- `(nil, nil)` : the node is not a replica any more → nil-interface call
  | gtid (executed : String)
  deriving Repr, DecidableEq

inductive Act
  | changeMaster (to : String)   -- `performChangeMaster(host, to)`
  | startSlave | stopSlave
  | readFresh | readUuid
  | writeEmerge
  | setLostTimer | cleanLostTimer
  | panic (site : String)
  deriving Repr, DecidableEq

structure In where
  streamFrom : String            -- `cascadeTopology[host].StreamFrom`
  master : String := ""          -- the recorded master (fallback of the blind branch)
  lostTimerZero : Bool           -- `app.t.Get(StreamFromFailedAt, host).IsZero()`
  candidate : BSF                -- result of `findBestStreamFrom`
  changeBlindOk : Bool := true   -- the blind `performChangeMaster` succeeded
  stopOk : Bool := true
  fresh : Fresh := .err
  uuid : Option String := none   -- `candidateNode.UUID()`
  changeOk : Bool := true
  deriving Repr

/-- `repairCascadeNode` for a cascade host `host` with snapshot `st` -/
def repairCascade (host : String) (st : NodeState) (cs : ClusterState) (i : In) : List Act :=
  match st.slave with
  | none =>
    -- "Blindly change master"
    -- a self-reference falls back to the master (an explicit panic in performChangeMaster before fix: 731a354)
    let sf := if host == i.streamFrom then i.master else i.streamFrom
    if host == sf then [.panic "performChangeMaster: host == master"]
    else if i.changeBlindOk then [.changeMaster sf, .startSlave] else [.changeMaster sf]
  | some sl =>
    let running := sl.state == .running
    let upstream := sl.masterHost
    match i.candidate with
    | .panic site => [.panic site]
    | .outOfFuel => [.panic "findBestStreamFrom does not terminate"]
    | .host cand =>
      if running && cand == upstream then [.cleanLostTimer]
      else if !running && cand == upstream then
        if st.permBroken then [] else [.startSlave]
      else
        let t : List Act := if !running && i.lostTimerZero then [.setLostTimer] else []
        -- here cand ≠ upstream
        let stop : List Act := if running then [.stopSlave] else []
        if running && !i.stopOk then t ++ stop
        else match i.fresh with
          | .err => t ++ stop ++ [.readFresh]
          | .noRow => t ++ stop ++ [.readFresh, .panic "mySlaveStatus.GetExecutedGtidSet() on nil"]
          | .gtid mine =>
            match cs.get? cand with
            | none => t ++ stop ++ [.readFresh, .panic "clusterState[upstreamCandidate]"]
            | some c =>
              let candText : Option String :=
                if c.isMaster then c.masterExecuted else c.slave.map (·.executed)
              match candText with
              | none => t ++ stop ++ [.readFresh, .panic "candidateState.{Master,Slave}State nil"]
              | some ctext =>
                match i.uuid with
                | none => t ++ stop ++ [.readFresh, .readUuid]
                | some u =>
                  let my := parseD mine
                  let cg := parseD ctext
                  if isSlaveAhead my cg then t ++ stop ++ [.readFresh, .readUuid]            -- awaiting convergence
                  else if isSplitBrained my cg u then t ++ stop ++ [.readFresh, .readUuid, .writeEmerge]
                  else if isSlaveBehindOrEqual my cg then
                    if host == cand then t ++ stop ++ [.readFresh, .readUuid, .panic "performChangeMaster: host == master"]
                    else if i.changeOk then t ++ stop ++ [.readFresh, .readUuid, .changeMaster cand, .startSlave]
                    else t ++ stop ++ [.readFresh, .readUuid, .changeMaster cand]
                  else t ++ stop ++ [.readFresh, .readUuid]

end Cascade
