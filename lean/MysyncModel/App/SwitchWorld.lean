/-
C07 — resumability on a world model.

`Switchover.lean` describes `performSwitchover` as a function from oracle outcomes to an ordered step list.  Here the
steps get their EFFECT on a small world (per-server read-only flag, replication source and threads; the recorded master
and the published list), and the oracle inputs of a run are READ OFF the world (`view`): every server reachable, every
call succeeding, no client writes during the procedure (all servers hold the same transactions) — the healed world in
which the property promises that the next manager finishes the request.  A crash is a prefix of the step list; the
successor's run starts from the world the prefix left behind.
-/
import MysyncModel.App.Switchover

namespace SwitchWorld
open NS Switchover

structure Srv where
  ro : Bool
  source : Option String := none         -- configured replication source (none = not a replica)
  io : Bool := false
  sql : Bool := false
  offline : Bool := false
  deriving Repr, DecidableEq

structure World where
  srvs : List (String × Srv)             -- registered HA servers, all reachable
  master : String                        -- recorded master
  active : List String                   -- published list
  deriving Repr, DecidableEq

def World.upd (w : World) (h : String) (f : Srv → Srv) : World :=
  { w with srvs := w.srvs.map fun (k, s) => if k == h then (k, f s) else (k, s) }

/-- effect of one step of the procedure (failed steps and pure checks change nothing) -/
def apply (w : World) : Step → World
  | .freezeRO h true => w.upd h fun s => { s with ro := true }
  | .stopIO h true => w.upd h fun s => { s with io := false }
  | .setOnline h true => w.upd h fun s => { s with offline := false }
  | .changeMaster h to true => w.upd h fun s => { s with source := some to, io := true, sql := true }
  | .stopSlave h true => w.upd h fun s => { s with io := false, sql := false }
  | .resetSlaveAll h true => w.upd h fun s => { s with source := none, io := false, sql := false }
  | .setWritable h true => w.upd h fun s => { s with ro := false }
  | .setMasterKey h true => { w with master := h }
  | _ => w

def applyAll (w : World) (steps : List Step) : World := steps.foldl apply w

/-- the transactions every server holds (nothing is written while the procedure runs): as text in the snapshots, as a
value where the procedure compares positions (the text parser does not reduce in the kernel) -/
def G : String := "00000001-0000-0000-0000-000000000001:1-100"
def GS : Gtid.GtidSet := [({ sid := "00000001-0000-0000-0000-000000000001", tag := "" }, [⟨1, 101⟩])]

/-- the snapshot `getNodeState` takes of a server of this world -/
def nodeState (s : Srv) : NodeState :=
  { pingOk := true, isReadOnly := s.ro, isSuperReadOnly := s.ro, isOffline := s.offline,
    isMaster := s.source.isNone,
    masterExecuted := if s.source.isNone then some G else none,
    slave := s.source.map fun src =>
      { masterHost := src, retrieved := G, executed := G, lag := some 0,
        state := if s.io && s.sql then .running else .stopped } }

/-- the oracle inputs of a run of the procedure in the healed world: everything succeeds, positions are read off the
frozen servers in work-list order, the new master has caught up (it holds the same transactions) -/
def view (w : World) (sw : Manager.Switch) : In :=
  let cs : ClusterState := w.srvs.map fun (h, s) => (h, nodeState s)
  let base : In := { cs := cs, active := w.active, sw := sw, oldMaster := w.master, ro := fun _ => true, io := fun _ => true,
                     positions := none, cs2 := cs, repoint := fun _ => true,
                     -- the status read of the old master is taken as "not confirmed" (the recovery mark that follows has no
                     -- effect on the servers of this world); this keeps the text parser out of the world model
                     oldStatus := .notReplica }
  { base with positions := some ((frozen base).map fun h => ({ host := h, gtid := GS, lag := 0, prio := 0 } : Select.Pos)) }

/-- one writable master which is the recorded master; every other server is a read-only replica of it with both
threads running -/
def canonical (w : World) : Bool :=
  w.srvs.all fun (h, s) =>
    if h == w.master then !s.ro && s.source.isNone
    else s.ro && s.source == some w.master && s.io && s.sql

/-- a converged cluster: `hosts` (duplicate-free), `m` its master -/
def converged (hosts : List String) (m : String) : World :=
  { srvs := hosts.map fun h => (h, if h == m then { ro := false } else { ro := true, source := some m, io := true, sql := true }),
    master := m, active := hosts }

/-- the run of the procedure from world `w` for request `sw` -/
def runOf (cfg : Cfg) (w : World) (sw : Manager.Switch) : List Step := performSwitchover cfg (view w sw)

end SwitchWorld
