/-
The control skeleton of `stateManager` (internal/app/app.go 367-616) with `approveFailover`
(727-772), `approveSwitchover` (810-822) and the switch-request bookkeeping
(`Start/Fail/FinishSwitchover`, `IssueFailover`, app_dcs.go).  Serves C05 (failover gating), C06
(request lifecycle), C09 (maintenance) and C03-ii (only the lock holder acts).

One manager iteration is modelled as a function from what the iteration reads (cluster views,
coordination records, the process-local failure timer, the clock) and from the outcomes of the
sub-procedures it calls (abstract: `performSwitchover`, `enterMaintenance`, DCS writes) to the list
of *steps* it takes, the next daemon state, the new timer value and the coordination writes.
Times and durations are nanoseconds (`Int`).  `manager_switchover` is off (T9).
-/
import MysyncModel.NodeState
import MysyncModel.Generated.SwitchHelper

namespace Manager
open NS

structure Cfg where
  failover : Bool
  failoverDelay : Int
  failoverCooldown : Int
  resetupCrashedHosts : Bool
  semiSync : Bool
  waitCount : Int                       -- rpl_semi_sync_master_wait_for_slave_count
  switchoverTimeout : Int
  switchoverMaxAttempts : Int
  deriving Repr, Inhabited

inductive State | manager | candidate | lost | maintenance | firstRun
  deriving Repr, DecidableEq, Inhabited

/-- a `Switchover` record as far as the manager looks at it -/
structure Switch where
  from_ : String := ""
  to : String := ""
  causeAuto : Bool := false             -- Cause == "auto"
  failoverType : Bool := false          -- MasterTransition == "failover"
  initiatedAt : Option Int := none      -- none = zero time
  runCount : Int := 0
  deriving Repr, Inhabited, DecidableEq

inductive MaintRead
  | absent
  | err (fileExists : Bool)             -- read failed (not NotFound); maintenance marker file present?
  | record (light paused shouldLeave : Bool)
  deriving Repr, DecidableEq

inductive SwitchRead | absent | err | record (sw : Switch)
  deriving Repr, DecidableEq

inductive LastSwitchRead
  | absent | err
  | record (resultNil : Bool) (causeAuto : Bool) (finishedAt : Int)
  deriving Repr, DecidableEq

/-- outcome of the abstract `performSwitchover` + the re-read of the request that follows it -/
inductive PerformOutcome | ok | failed | abortedMeanwhile | panicked
  deriving Repr, DecidableEq

inductive Refusal
  | failoverDisabled | replicasStillRunning | delayNotElapsed | noQuorum | lastSwitchReadErr
  | lastSwitchInProgress | cooldown
  deriving Repr, DecidableEq

inductive Step
  | writeEmerge
  | setMaintPaused (ok : Bool)          -- light mode acknowledgement
  | enterMaintenance (ok : Bool)        -- full mode: `enterMaintenance`
  | tryLeaveMaintenance
  | failoverSuppressedByLight
  | switchTimedOut                      -- `FinishSwitchover(timed out)` → last_rejected_switch (since the fix: commit; before it: FailSwitchover, request kept)
  | switchRejected                      -- `FinishSwitchover(err)` → last_rejected_switch
  | switchStarted (ok : Bool)           -- `StartSwitchover`
  | switchPerformed (o : PerformOutcome)
  | switchFailed                        -- `FailSwitchover` : run_count + 1, request kept
  | switchFinished                      -- `FinishSwitchover(nil)` → last_switch
  | masterFailureSeen
  | setFailTimer | cleanFailTimer
  | notApproved (why : Refusal)
  | issueFailover                       -- create-if-absent of `switch` with cause auto
  | suspicious                          -- "MASTER SUSPICIOUS, do not perform any kind of repair"
  | repairOffline | repairCluster
  | crashRecoverySeen
  | updateActiveNodes | syncOptimization
  | panic (site : String)
  deriving Repr, DecidableEq

structure In where
  connected : Bool := true
  lockHeld : Bool := true
  dcsStateErr : Bool := false            -- getClusterStateFromDcs failed
  /-- `getCurrentMaster`: none = error (`manyMasters` tells which) -/
  master : Option String
  manyMasters : Bool := false
  activeNodesErr : Bool := false
  activeNodes : List String
  cs : ClusterState                      -- manager's own view
  dcs : ClusterState                     -- health records
  maint : MaintRead := .absent
  sw : SwitchRead := .absent
  last : LastSwitchRead := .absent
  now : Int
  failedAt : Option Int                  -- process-local NodeFailedAt[master]; none = zero
  -- outcomes of calls made by the iteration
  setPausedOk : Bool := true
  enterMaintOk : Bool := true
  startOk : Bool := true
  perform : PerformOutcome := .ok
  /-- the state returned by `tryLeaveMaintenance` (modelled in MysyncModel/App/Maintenance.lean) -/
  tryLeaveNext : State := .manager
  deriving Repr

structure Out where
  steps : List Step
  next : State
  failedAt : Option Int
  deriving Repr

def sh (cfg : Cfg) : Gen.SwitchHelper.SwitchHelper :=
  { priorityChoiceMaxLag := 0, rplSemiSyncMasterWaitForSlaveCount := cfg.waitCount, SemiSync := cfg.semiSync }

/-- `approveFailover`; `failedAt`/`now` are the process-local timer and the clock.  `none` = approved.
A missing entry for the master in the DCS view is a nil dereference in the code (`panic`). -/
def approveFailover (cfg : Cfg) (i : In) (master : String) (failedAt : Option Int) : Except String (Option Refusal) :=
  if !cfg.failover then .ok (some .failoverDisabled) else
  match i.dcs.get? master with
  | none => .error "clusterStateDcs[master]"
  | some md =>
    let afterCrash := md.daemonCrashRecovery == some true && cfg.resetupCrashedHosts
    let early : Option Refusal :=
      if afterCrash then none
      else if md.isFsReadonly then none
      else
        let running := countRunningHASlaves i.cs
        if running > 0 && running == countHANodes i.cs - 1 then some .replicasStillRunning
        else if cfg.failoverDelay > 0 then
          -- `time.Since(zero time)` saturates at the maximal duration, which is never below a configured delay
          match failedAt with
          | none => none
          | some t => if i.now - t < cfg.failoverDelay then some .delayNotElapsed else none
        else none
    match early with
    | some r => .ok (some r)
    | none =>
      let permissible := countAliveHASlavesWithin i.activeNodes i.cs
      if (Gen.SwitchHelper.CheckFailoverQuorum (sh cfg) i.activeNodes permissible).isSome then .ok (some .noQuorum)
      else match i.last with
        | .absent => .ok none
        | .err => .ok (some .lastSwitchReadErr)
        | .record resultNil causeAuto finishedAt =>
          if resultNil then .ok (some .lastSwitchInProgress)
          else if i.now - finishedAt < cfg.failoverCooldown && causeAuto then .ok (some .cooldown)
          else .ok none

/-- `approveSwitchover`: true = approved -/
def approveSwitchover (cfg : Cfg) (i : In) (sw : Switch) : Bool :=
  if !sw.failoverType && cfg.switchoverMaxAttempts > 0 && sw.runCount ≥ cfg.switchoverMaxAttempts then false
  else if sw.runCount > 0 then true
  else
    let permissible := countAliveHASlavesWithin i.activeNodes i.cs
    (Gen.SwitchHelper.CheckFailoverQuorum (sh cfg) i.activeNodes permissible).isNone

/-- the part of the iteration after the maintenance and switch-request handling -/
def afterSwitch (cfg : Cfg) (i : In) (master : String) (light : Bool) (pre : List Step) : Out :=
  match i.dcs.get? master, i.cs.get? master with
  -- the recorded master is not a registered host: logged, nothing done (a nil dereference before the fix: commit 7812210)
  | none, _ => { steps := pre, next := .manager, failedAt := i.failedAt }
  | some md, csm =>
    let bad := !md.pingOk || md.isFsReadonly
    -- failure detection
    let (s1, timer, ret) : List Step × Option Int × Bool :=
      if bad then
        let (st, tm) : List Step × Option Int :=
          match i.failedAt with
          | none => ([.masterFailureSeen, .setFailTimer], some i.now)
          | some t => ([.masterFailureSeen], some t)
        if light then (st ++ [.failoverSuppressedByLight], tm, false)
        else match approveFailover cfg i master tm with
          | .error site => (st ++ [.panic site], tm, true)
          | .ok none => (st ++ [.issueFailover], tm, true)
          | .ok (some r) => (st ++ [.notApproved r], tm, true)
      else
        match i.failedAt with
        | some _ => ([.cleanFailTimer], none, false)
        | none => ([], none, false)
    if ret then { steps := pre ++ s1, next := .manager, failedAt := timer }
    else match csm with
      | none => { steps := pre ++ s1 ++ [.panic "clusterState[master]"], next := .manager, failedAt := timer }
      | some cm =>
        if !cm.pingOk then { steps := pre ++ s1 ++ [.suspicious], next := .manager, failedAt := timer }
        else
          let s2 := s1 ++ [.repairOffline, .repairCluster]
          let crash := cfg.resetupCrashedHosts && countHANodes i.cs > 1 && md.daemonCrashRecovery == some true
          if crash then
            if light then
              { steps := pre ++ s2 ++ [.crashRecoverySeen, .failoverSuppressedByLight, .updateActiveNodes, .syncOptimization], next := .manager, failedAt := timer }
            else match approveFailover cfg i master timer with
              | .error site => { steps := pre ++ s2 ++ [.crashRecoverySeen, .panic site], next := .manager, failedAt := timer }
              | .ok none => { steps := pre ++ s2 ++ [.crashRecoverySeen, .issueFailover], next := .manager, failedAt := timer }
              | .ok (some r) =>
                { steps := pre ++ s2 ++ [.crashRecoverySeen, .notApproved r, .updateActiveNodes, .syncOptimization], next := .manager, failedAt := timer }
          else { steps := pre ++ s2 ++ [.updateActiveNodes, .syncOptimization], next := .manager, failedAt := timer }

/-- handling of a pending request (app.go 469-524); `light` = light maintenance is on -/
def handleSwitch (cfg : Cfg) (i : In) (master : String) (light : Bool) (pre : List Step) : Out :=
  match i.sw with
  | .err => { steps := pre, next := .manager, failedAt := i.failedAt }
  | .absent => afterSwitch cfg i master light pre
  | .record sw =>
    if light && sw.failoverType then afterSwitch cfg i master light (pre ++ [.failoverSuppressedByLight])
    else
      let timedOut := match sw.initiatedAt with
        | some t => decide (i.now - t > cfg.switchoverTimeout)
        | none => false
      if timedOut then { steps := pre ++ [.switchTimedOut], next := .manager, failedAt := i.failedAt }
      else if !approveSwitchover cfg i sw then { steps := pre ++ [.switchRejected], next := .manager, failedAt := i.failedAt }
      else if !i.startOk then { steps := pre ++ [.switchStarted false], next := .manager, failedAt := i.failedAt }
      else
        let tail : List Step := match i.perform with
          | .abortedMeanwhile => []
          | .panicked => [.panic "performSwitchover"]
          | .failed => [.switchFailed]
          | .ok => [.switchFinished]
        { steps := pre ++ [.switchStarted true, .switchPerformed i.perform] ++ tail, next := .manager, failedAt := i.failedAt }

/-- one iteration of `stateManager` -/
def stateManager (cfg : Cfg) (i : In) : Out :=
  if !i.connected then { steps := [], next := .lost, failedAt := i.failedAt }
  else if !i.lockHeld then { steps := [], next := .candidate, failedAt := i.failedAt }
  else if i.dcsStateErr then { steps := [], next := .manager, failedAt := i.failedAt }
  else match i.master with
    | none => { steps := if i.manyMasters then [.writeEmerge] else [], next := .manager, failedAt := i.failedAt }
    | some master =>
      if i.activeNodesErr then { steps := [], next := .manager, failedAt := i.failedAt }
      else match i.maint with
        | .err true => { steps := [], next := .maintenance, failedAt := i.failedAt }
        | .err false => handleSwitch cfg i master false []
        | .absent => handleSwitch cfg i master false []
        | .record true paused shouldLeave =>
          -- light mode
          if shouldLeave then { steps := [.tryLeaveMaintenance], next := i.tryLeaveNext, failedAt := i.failedAt }
          else if !paused then
            if i.setPausedOk then handleSwitch cfg i master true [.setMaintPaused true]
            else { steps := [.setMaintPaused false], next := .manager, failedAt := i.failedAt }
          else handleSwitch cfg i master true []
        | .record false paused _ =>
          -- full mode
          if !paused then
            if i.enterMaintOk then { steps := [.enterMaintenance true], next := .maintenance, failedAt := i.failedAt }
            else { steps := [.enterMaintenance false], next := .manager, failedAt := i.failedAt }
          else { steps := [], next := .maintenance, failedAt := i.failedAt }

end Manager
