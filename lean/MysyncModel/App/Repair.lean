/-
C10 — `repairSlaveNode` (app.go 1806-1890, non-cascade part), `performChangeMaster`,
`TryRepairReplication` / `MarkReplicationRunning` / `getSuitableAlgorithmType` / `cooldownPassed`
(replication.go), `repairMasterOfflineMode`.  Times are nanoseconds.
-/
import MysyncModel.NodeState

namespace Repair
open NS

structure Cfg where
  aggressive : Bool                     -- replication_repair_aggressive_mode
  maxAttempts : Int                     -- replication_repair_max_attempts
  cooldown : Int                        -- replication_repair_cooldown
  deriving Repr, Inhabited

/-- `ReplicationRepairState` (per host) -/
structure RepairState where
  lastAttempt : Int
  startCount : Int := 0                 -- History[StartSlave]
  resetCount : Int := 0                 -- History[ResetSlave]
  deriving Repr, DecidableEq

inductive Act
  | setReadOnly
  | setOffline | semiSyncDisable        -- stopReplicationOnMaster
  | changeMaster (to : String)          -- performChangeMaster: STOP, CHANGE SOURCE, START
  | setRecovery
  | startSlave
  | resetSlaveAlgorithm (to : String)   -- SetOffline, SetReadOnly, StopSlave, ResetSlaveAll, ChangeMaster, StartSlave
  | createRepairState | deleteRepairState
  | cascade                             -- handled by repairCascadeNode (C16)
  deriving Repr, DecidableEq

inductive Algo | startSlave | resetSlave
  deriving Repr, DecidableEq

/-- `getSuitableAlgorithmType` for the internal channel: none = "we have tried everything" -/
def suitable (cfg : Cfg) (st : RepairState) : Option Algo :=
  if st.startCount < cfg.maxAttempts then some .startSlave
  else if cfg.aggressive && st.resetCount < cfg.maxAttempts then some .resetSlave
  else none

/-- `cooldownPassed` : `LastAttempt.Before(now - cooldown)` -/
def cooldownPassed (cfg : Cfg) (st : RepairState) (now : Int) : Bool := decide (st.lastAttempt < now - cfg.cooldown)

/-- `TryRepairReplication(node, master, channel)`; `createOk` = the status read needed to create the state succeeded -/
def tryRepair (cfg : Cfg) (st : Option RepairState) (now : Int) (master : String) (createOk : Bool) : List Act × Option RepairState :=
  match st with
  | none =>
    if !createOk then ([], none)
    else ([.createRepairState], some { lastAttempt := now })       -- fresh state: cooldown has not passed, nothing more now
  | some s =>
    if !cooldownPassed cfg s now then ([], some s)
    else match suitable cfg s with
      | none => ([], some s)
      | some .startSlave => ([.startSlave], some { s with startCount := s.startCount + 1, lastAttempt := now })
      | some .resetSlave => ([.resetSlaveAlgorithm master], some { s with resetCount := s.resetCount + 1, lastAttempt := now })

/-- `MarkReplicationRunning`; `progressed` = the executed set moved beyond the one remembered at creation -/
def markRunning (cfg : Cfg) (st : Option RepairState) (now : Int) (progressed : Bool) : List Act × Option RepairState :=
  match st with
  | none => ([], none)
  | some s => if cooldownPassed cfg s now && progressed then ([.deleteRepairState], none) else ([], some s)

/-- `repairSlaveNode` for a reachable host that is not the recorded master -/
def repairSlave (cfg : Cfg) (host : String) (st : NodeState) (master : String) (rs : Option RepairState) (now : Int)
    (createOk progressed : Bool) : List Act × Option RepairState :=
  let a0 : List Act := if !st.isReadOnly then [.setReadOnly] else []
  if st.isMaster then (a0 ++ [.setOffline, .semiSyncDisable, .changeMaster master, .setRecovery], rs)
  else if st.isCascade then (a0 ++ [.cascade], rs)
  else match st.slave with
    | none => (a0, rs)
    | some sl =>
      let a1 : List Act :=
        if sl.masterHost != master then [.changeMaster master]
        else if sl.state == .stopped then [.startSlave]
        else []
      if sl.state == .error then
        if st.permBroken then (a0 ++ a1, rs)
        else
          let (a2, rs') := tryRepair cfg rs now master createOk
          (a0 ++ a1 ++ a2, rs')
      else
        let (a2, rs') := markRunning cfg rs now progressed
        (a0 ++ a1 ++ a2, rs')

/-! ### finite abstraction for convergence -/

inductive Src | master | other | none
  deriving Repr, DecidableEq
inductive Rep | running | stopped | errTemp | errPerm
  deriving Repr, DecidableEq
/-- what the attempt bookkeeping allows for a replica in (non-permanent) error -/
inductive Budget | noState | mustWait | mayStart | mayReset | exhausted
  deriving Repr, DecidableEq

structure Abs where
  readOnly : Bool
  claimsMaster : Bool                   -- reports master role although it is not the recorded master
  src : Src
  rep : Rep
  budget : Budget
  offline : Bool
  marked : Bool
  deriving Repr, DecidableEq

/-- one fault-free repair pass on the abstraction; `startClears` = a START REPLICA clears a
non-permanent error (environment's choice), `timePasses` = the cooldown elapses before the next pass -/
def absPass (aggressive : Bool) (startClears timePasses : Bool) (n : Abs) : Abs :=
  let n := { n with readOnly := true }
  if n.claimsMaster then
    { n with claimsMaster := false, src := .master, rep := .running, offline := true, marked := true }
  else match n.src with
    | .none => n                                                   -- no replica status: nothing to repair from here
    | s =>
      -- re-point / start
      let n1 : Abs :=
        if s == .other then { n with src := .master, rep := (if n.rep == .errPerm then .errPerm else if n.rep == .errTemp && !startClears then .errTemp else .running) }
        else if n.rep == .stopped then { n with rep := .running }
        else n
      -- bounded replication repair uses the state seen at the START of the pass
      if n.rep == .errTemp then
        match n.budget with
        | .noState => { n1 with budget := if timePasses then .mayStart else .mustWait }
        | .mustWait => { n1 with budget := if timePasses then .mayStart else .mustWait }
        | .mayStart => { n1 with rep := if startClears then .running else n1.rep, budget := if aggressive then .mayReset else .exhausted }
        | .mayReset => { n1 with rep := .running, src := .master, offline := true, budget := .exhausted }
        | .exhausted => n1
      else n1

def Abs.canonical (n : Abs) : Bool := n.readOnly && !n.claimsMaster && n.src == .master && n.rep == .running
/-- the property's exception: replication broken beyond the allowed repair attempts (or permanently), or not a replica at all -/
def Abs.sink (n : Abs) : Bool :=
  n.readOnly && !n.claimsMaster && (n.rep == .errPerm || (n.rep == .errTemp && n.budget == .exhausted) || n.src == .none)

end Repair
