/-
C18 — `repairReadOnlyOnMaster` (internal/app/app.go ~1693-1772) as decision + effect.
-/
import MysyncModel.NodeState

namespace DiskGuard
open NS

structure Cfg where
  semiSync : Bool
  keepSuperWritable : Bool
  crit : Int        -- critical_disk_usage (percent)
  notCrit : Int     -- not_critical_disk_usage (percent)
  deriving Repr, Inhabited

/-- what the loop over the DCS view accumulates -/
structure Tally where
  needRo : Bool := false
  mayWrite : Bool := true
  running : Int := 0
  low : Int := 0
  normal : Int := 0
  deriving Repr, Inhabited, DecidableEq

/-- one iteration of `for host, node := range clusterStateDcs` -/
def tallyStep (cfg : Cfg) (masterHost : String) (t : Tally) (e : String × NodeState) : Tally :=
  let (host, node) := e
  match node.disk with
  | none => t                                         -- missing disk reports are ignored
  | some d =>
    if node.isMaster && masterHost == host then
      if d.usageGe cfg.crit then { t with needRo := true }
      else if d.usageGt cfg.notCrit then { t with mayWrite := false }
      else t
    else
      let counted := cfg.semiSync &&
        (match node.semiSync with | some s => s.slaveEnabled | none => false) &&
        (match node.slave with | some s => s.state == .running | none => false)
      if counted then
        if d.usageGe cfg.crit then { t with running := t.running + 1, low := t.low + 1 }
        else if d.usageGt cfg.notCrit then { t with running := t.running + 1 }
        else { t with running := t.running + 1, normal := t.normal + 1 }
      else t

def tally (cfg : Cfg) (masterHost : String) (dcs : ClusterState) : Tally :=
  dcs.foldl (tallyStep cfg masterHost) {}

/-- the part after the loop that looks at the replica counters -/
def afterReplicas (ms : NodeState) (t : Tally) : Tally :=
  if t.running > 0 then
    match ms.semiSync with
    | some ss =>
      if t.low > t.running - ss.waitSlaveCount then { t with needRo := true }
      else if t.normal == 0 then { t with mayWrite := false }
      else t
    | none => if t.normal == 0 then { t with mayWrite := false } else t
  else t

inductive Decision
  | setReadOnly (super : Bool)   -- `SetReadOnlyWithForce(excludeUsers, super)`
  | alreadyReadOnly              -- read-only needed and the master is already in exactly that mode
  | setWritable
  | alreadyWritable
  | greyZone                     -- "cluster in grey-zone, do not change read_only"
  deriving Repr, DecidableEq

def decide_ (cfg : Cfg) (masterHost : String) (ms : NodeState) (dcs : ClusterState) : Decision :=
  let t := afterReplicas ms (tally cfg masterHost dcs)
  if t.needRo then
    if ms.isReadOnly && (cfg.keepSuperWritable != ms.isSuperReadOnly) then .alreadyReadOnly
    else .setReadOnly (!cfg.keepSuperWritable)
  else if t.mayWrite then
    if !ms.isReadOnly then .alreadyWritable else .setWritable
  else .greyZone

/-- the `low_space` write that follows: issued iff the mode statement was issued and succeeded -/
def lowSpaceWrite (d : Decision) (stmtOk : Bool) : Option Bool :=
  match d with
  | .setReadOnly _ => if stmtOk then some true else none
  | .setWritable => if stmtOk then some false else none
  | _ => none

end DiskGuard
