/-
`replay <trace.jsonl>` — reads the JSON-lines trace written by the Go harness (which ran the REAL
/repo code), re-runs the Lean model on the same inputs, reports where they differ (correspondence)
and evaluates the property monitors on the implementation's own outputs (violations).
-/
import MysyncModel.Replay.Util
import Std.Data.HashSet
import MysyncModel.Replay.C12
import MysyncModel.Replay.C13
import MysyncModel.Replay.C18
import MysyncModel.Replay.C17
import MysyncModel.Replay.C16
import MysyncModel.Replay.Mgr
import MysyncModel.Replay.C09
import MysyncModel.Replay.C08
import MysyncModel.Replay.C04
import MysyncModel.Replay.C01
import MysyncModel.Replay.C11
import MysyncModel.Replay.C19
import MysyncModel.Replay.C10
import MysyncModel.Replay.Zk
import MysyncModel.Replay.Sim
import MysyncModel.Replay.Obs

open Lean Replay

def handlers : List (String × Handler) := [
  ("c12", Replay.C12.handle),
  ("c13pair", Replay.C13.handlePair),
  ("c13iv", Replay.C13.handleIv),
  ("c14", Replay.C13.handleList),
  ("c18", Replay.C18.handle),
  ("c17host", Replay.C17.handleHost),
  ("c17pass", Replay.C17.handlePass),
  ("c16bsf", Replay.C16.handleBsf),
  ("c16repair", Replay.C16.handleRepair),
  ("mgrtick", Replay.Mgr.handleTick),
  ("c09h", Replay.C09.handle),
  ("c08", Replay.C08.handle),
  ("c04", Replay.C04.handle),
  ("c01", Replay.C01.handle),
  ("c11", Replay.C11.handle),
  ("c19sync", Replay.C19.handle),
  ("c10pass", Replay.C10.handle),
  ("zkhist", Replay.ZkH.handle),
  ("simrun", Replay.Sim.handle),
  ("obs", Replay.Obs.handle)
]

partial def loop (h : IO.FS.Stream) (seen : Std.HashSet UInt64) (a : Acc) : IO Acc := do
  let line ← h.getLine
  if line.isEmpty then return a
  let line := line.trimAscii.toString
  if line.isEmpty then loop h seen a else
  let a := { a with lines := a.lines + 1 }
  match Json.parse line with
  | .error e => loop h seen { a with malformed := a.malformed + 1, firstMismatch := a.firstMismatch ++ [s!"unparsable line: {e}"] }
  | .ok j =>
    match jStr j "k" with
    | .error _ => loop h seen { a with malformed := a.malformed + 1 }
    | .ok k =>
      match handlers.lookup k with
      | none => loop h seen { a with malformed := a.malformed + 1, firstMismatch := a.firstMismatch ++ [s!"unknown kind {k}"] }
      | some f =>
        match f j { (a.bumpKind k) with pendingNt := none } with
        | .ok a' =>
          -- C20: a recovered panic of the real handler in ANY harness is a crash of the daemon on that input
          let a' := match jStr j "panic" with
            | .ok p => if p != "" && k != "simrun" then a'.violationSig s!"C20:panic-in-handler:{k}" s!"{p.take 160} on {(line.take 1500)}" else a'
            | .error _ => a'

          match a'.pendingNt with
          | none => loop h seen a'
          | some nt =>
            let key := hash line
            if seen.contains key then loop h seen a'
            else loop h (seen.insert key) { a' with distinct := a'.distinct + 1, nontrivial := a'.nontrivial + (if nt then 1 else 0) }
        | .error e =>
          let a := { a with malformed := a.malformed + 1 }
          let a := if a.firstMismatch.length < 5 then { a with firstMismatch := a.firstMismatch ++ [s!"{k}: bad record: {e}"] } else a
          loop h seen a

def main (args : List String) : IO UInt32 := do
  match args with
  | [path] =>
    let h ← IO.FS.Handle.mk path .read
    let a ← loop (IO.FS.Stream.ofHandle h) {} {}
    IO.println (summaryJson a).compress
    return (if a.mismatches == 0 && a.violations == 0 && a.malformed == 0 then 0 else 1)
  | _ =>
    IO.eprintln "usage: replay <trace.jsonl>"
    return 2
