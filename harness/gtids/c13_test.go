//go:build verif

package gtids

import (
	"fmt"
	"math/rand"
	"sort"
	"strings"
	"testing"

	gomysql "github.com/go-mysql-org/go-mysql/mysql"
	"github.com/google/uuid"

	"github.com/yandex/mysync/internal/verifh"
)

type jIv = [2]int64
type jEnt struct {
	Sid string `json:"sid"`
	Tag string `json:"tag"`
	Iv  []jIv  `json:"iv"`
}

// SetJSON renders the parsed structure (NOT the text) so that the Lean side does not depend on the
// library's parser.
func setJSON(s GTIDSet) []jEnt {
	m := s.(*gomysql.MysqlGTIDSet)
	var out []jEnt
	for u, tm := range *m {
		for tag, ivs := range tm {
			e := jEnt{Sid: u.String(), Tag: tag.String(), Iv: []jIv{}}
			for _, iv := range ivs {
				e.Iv = append(e.Iv, jIv{iv.Start, iv.Stop})
			}
			out = append(out, e)
		}
	}
	sort.Slice(out, func(i, j int) bool { return out[i].Sid+"|"+out[i].Tag < out[j].Sid+"|"+out[j].Tag })
	if out == nil {
		out = []jEnt{}
	}
	return out
}

var c13keys = []string{
	"00000000-0000-0000-0000-00000000000a",
	"00000000-0000-0000-0000-00000000000b",
	"00000000-0000-0000-0000-00000000000a:tg",
	"11111111-0000-0000-0000-00000000000c",
}

// textOf builds "key:g1:g2…" for every key with a non-empty bitmask (bit i = transaction i+1)
func textOf(masks []uint32) string {
	var parts []string
	byUUID := map[string][]string{}
	var order []string
	for i, m := range masks {
		if m == 0 {
			continue
		}
		k := c13keys[i]
		u, tag := k, ""
		if j := strings.Index(k, ":"); j >= 0 {
			u, tag = k[:j], k[j+1:]
		}
		var gs []string
		for b := 0; b < 32; b++ {
			if m&(1<<b) != 0 {
				gs = append(gs, fmt.Sprint(b+1))
			}
		}
		seg := strings.Join(gs, ":")
		if tag != "" {
			seg = tag + ":" + seg
		}
		if _, ok := byUUID[u]; !ok {
			order = append(order, u)
		}
		byUUID[u] = append(byUUID[u], seg)
	}
	for _, u := range order {
		parts = append(parts, u+":"+strings.Join(byUUID[u], ":"))
	}
	return strings.Join(parts, ",")
}

// refSubset is the independent bitset reference
func refSubset(a, b []uint32) bool {
	for i := range a {
		if a[i]&^b[i] != 0 {
			return false
		}
	}
	return true
}

func emitPair(out *verifh.Out, at, bt string, am, bm []uint32, masterKey int) {
	a, b := ParseGtidSet(at), ParseGtidSet(bt)
	mu := uuid.MustParse(strings.Split(c13keys[masterKey], ":")[0])
	diff, derr := GTIDDiff(a, b)
	minus := mysqlGTIDSetMinus(a.(*gomysql.MysqlGTIDSet), b.(*gomysql.MysqlGTIDSet))
	rec := map[string]any{
		"k": "c13pair", "a": setJSON(a), "b": setJSON(b), "uuid": mu.String(),
		"behind": IsSlaveBehindOrEqual(a, b), "ahead": IsSlaveAhead(a, b), "split": IsSplitBrained(a, b, mu),
		"contain": b.Contain(a), "equal": b.Equal(a), "diff": diff, "differr": derr != nil,
		"minus": setJSON(minus), "atext": a.String(), "btext": b.String(),
	}
	// executed ∪ retrieved as getNodePositions does it
	u := a.Clone()
	if err := u.Update(b.String()); err == nil {
		rec["union"] = setJSON(u)
	}
	if am != nil {
		rec["ref_subset"] = refSubset(am, bm)
		// reference for the split-brain clause: a transaction of a missing in b under a key whose uuid is not the master's
		foreign := false
		for i := range am {
			if am[i]&^bm[i] != 0 && strings.Split(c13keys[i], ":")[0] != mu.String() {
				foreign = true
			}
		}
		rec["ref_foreign_extra"] = foreign
	}
	out.Line(rec)
}

func TestVerifC13Pairs(t *testing.T) {
	out := verifh.Open(t)
	defer out.Close()
	rnd := verifh.Rand()
	// 1. exhaustive small universes
	type uni struct{ keys, bits int }
	unis := []uni{{2, 3}, {3, 2}}
	if verifh.Thorough() {
		unis = []uni{{2, 4}, {3, 3}, {4, 2}}
	}
	for _, u := range unis {
		per := 1 << u.bits
		total := 1
		for i := 0; i < u.keys; i++ {
			total *= per
		}
		dec := func(x int) []uint32 {
			m := make([]uint32, len(c13keys))
			for i := 0; i < u.keys; i++ {
				m[i] = uint32(x % per)
				x /= per
			}
			return m
		}
		for x := 0; x < total; x++ {
			am := dec(x)
			at := textOf(am)
			for y := 0; y < total; y++ {
				bm := dec(y)
				emitPair(out, at, textOf(bm), am, bm, (x+y)%u.keys)
			}
		}
	}
	// 2. random larger sets with gaps (bitmask over 1..20, 4 keys)
	n := verifh.Pick(20000, 300000)
	for i := 0; i < n; i++ {
		am, bm := make([]uint32, 4), make([]uint32, 4)
		for k := 0; k < 4; k++ {
			switch rnd.Intn(4) {
			case 0: // absent
			case 1:
				am[k] = rnd.Uint32() & 0xfffff
			case 2: // prefix
				am[k] = (1 << uint(rnd.Intn(20))) - 1
			case 3:
				am[k] = rnd.Uint32() & rnd.Uint32() & 0xfffff
			}
			switch rnd.Intn(5) {
			case 0:
			case 1:
				bm[k] = rnd.Uint32() & 0xfffff
			case 2: // superset of a
				bm[k] = am[k] | (rnd.Uint32() & rnd.Uint32() & 0xfffff)
			case 3: // subset of a
				bm[k] = am[k] & rnd.Uint32()
			case 4:
				bm[k] = am[k]
			}
		}
		emitPair(out, textOf(am), textOf(bm), am, bm, rnd.Intn(4))
	}
	// 3. big numbers / ranges written as ranges (no bitmask reference)
	for i := 0; i < verifh.Pick(2000, 30000); i++ {
		mk := func(r *rand.Rand) string {
			var parts []string
			for k := 0; k < 1+r.Intn(3); k++ {
				cur := int64(1 + r.Intn(5))
				var segs []string
				for j := 0; j < 1+r.Intn(4); j++ {
					ln := int64(r.Intn(1000))
					if ln == 0 {
						segs = append(segs, fmt.Sprint(cur))
					} else {
						segs = append(segs, fmt.Sprintf("%d-%d", cur, cur+ln))
					}
					cur += ln + 1 + int64(r.Intn(3)) // gap 0 makes adjacent intervals that Normalize must merge
				}
				parts = append(parts, strings.Split(c13keys[k], ":")[0]+":"+strings.Join(segs, ":"))
			}
			return strings.Join(parts, ",")
		}
		emitPair(out, mk(rnd), mk(rnd), nil, nil, rnd.Intn(4))
	}
}

// TestVerifC13Intervals drives intervalSliceMinus / IntervalSlice.Contain directly.
func TestVerifC13Intervals(t *testing.T) {
	out := verifh.Open(t)
	defer out.Close()
	bits := verifh.Pick(7, 9)
	toIv := func(m int) gomysql.IntervalSlice {
		var s gomysql.IntervalSlice
		for b := 0; b < bits; b++ {
			if m&(1<<b) != 0 {
				s = append(s, gomysql.Interval{Start: int64(b + 1), Stop: int64(b + 2)})
			}
		}
		return s.Normalize()
	}
	js := func(s gomysql.IntervalSlice) []jIv {
		o := []jIv{}
		for _, iv := range s {
			o = append(o, jIv{iv.Start, iv.Stop})
		}
		return o
	}
	for a := 0; a < 1<<bits; a++ {
		for b := 0; b < 1<<bits; b++ {
			ai, bi := toIv(a), toIv(b)
			out.Line(map[string]any{"k": "c13iv", "a": js(ai), "b": js(bi), "minus": js(intervalSliceMinus(ai, bi)),
				"contain": ai.Contain(bi), "ref_minus": a &^ b, "ref_contain": b&^a == 0})
		}
	}
}
