//go:build verif

// Package fakes: in-memory fake MySQL servers speaking the wire protocol over net.Pipe, an
// in-memory fake DCS, a shared event log and fault plans.  Overlaid into
// /repo/internal/verifh/fakes by /verif/check; the REAL mysql.Node / sqlx / go-sql-driver run
// against it.  Statement semantics implemented here are the trusted base item T4 (DESIGN §3.3).
package fakes

import (
	"context"
	"encoding/binary"
	"fmt"
	"io"
	"net"
	"regexp"
	"sort"
	"strconv"
	"strings"
	"sync"
	"time"

	gomysql "github.com/go-mysql-org/go-mysql/mysql"
	driver "github.com/go-sql-driver/mysql"
)

// ---------------------------------------------------------------------------------------------
// world

type Event struct {
	Seq  int    `json:"seq"`
	T    int64  `json:"t"` // virtual (or real) ns since world start
	Kind string `json:"kind"` // "sql" | "dcs" | "env" | "file"
	Host string `json:"host,omitempty"`
	Op   string `json:"op"`
	Arg  string `json:"arg,omitempty"`
	Res  string `json:"res"` // "ok" | "err:<class>" | "hang" | value summary
	By   string `json:"by,omitempty"`
}

type Fault struct {
	Host string // "" = any
	Op   string // canonical op
	Nth  int    // 1-based occurrence among matching (host, op); 0 = every occurrence
	Mode string // "err:<code>" (no effect) | "lost:<code>" (effect, then error) | "hang" (no effect, never answers) | "hangafter" (effect, never answers) | "drop"
	seen int
}

type World struct {
	Mu     sync.Mutex
	Nodes  map[string]*MyNode
	Log    []Event
	Faults []*Fault
	Start  time.Time
	Mute   bool // do not log reads (keeps long runs small)
	BlipFrom, BlipTo time.Time // latency blip (see inBlipLocked)
	BlipLat          time.Duration
	OnStmt func(host, op, arg string) // hook called (without lock) before a statement is executed
	OnDcs  func(client, op, path, res string) // hook called WITH the lock held when a coordination call is logged
	// cluster simulation: which mysync dials (by the port it uses), which machine pairs cannot talk
	PortOwner map[string]string
	Cut       map[[2]string]bool
	NetTimeout time.Duration                     // > 0: slave_net_timeout semantics for the IO thread state (cluster simulation)
	replRound  int
	AckPick    func(n int) int                   // chooses which acknowledging replicas receive a transaction at once (nil = all)
	DeadProcs map[string]bool                    // killed mysync processes: nothing they still send has any effect
	OnStmtBy  func(by, host, op, arg string)     // like OnStmt, with the issuing mysync (called without the lock)
	Acked     []Txn // workload log
}

// Txn is one client transaction of the workload.
type Txn struct {
	Gtid string `json:"gtid"`
	Host string `json:"host"`
	Res  string `json:"res"` // "acked" | "pending" (written to the binlog, never acknowledged) | "refused"
	T    int64  `json:"t"`
	Ackers []string `json:"ackers,omitempty"`
	Late   bool     `json:"late,omitempty"` // acknowledged when semi-sync was switched off under the waiting commit
}

func pair(a, b string) [2]string {
	if a > b {
		a, b = b, a
	}
	return [2]string{a, b}
}

// Blocked: the machines a and b cannot exchange packets (lock held).
func (w *World) Blocked(a, b string) bool {
	return a != "" && b != "" && a != b && w.Cut[pair(a, b)]
}

// Isolate cuts (or heals) every link of host.
func (w *World) Isolate(host string, cut bool) {
	w.Mu.Lock()
	defer w.Mu.Unlock()
	if w.Cut == nil {
		w.Cut = map[[2]string]bool{}
	}
	for h := range w.Nodes {
		if h != host {
			if cut {
				w.Cut[pair(host, h)] = true
			} else {
				delete(w.Cut, pair(host, h))
			}
		}
	}
	w.logEv("env", host, map[bool]string{true: "isolate", false: "heal"}[cut], "", "ok")
}

// Revive restarts a killed server with the start-up configuration of the project's images:
// read_only, super_read_only, offline_mode ON, semi-sync roles off, binary log (executed set) kept.
func (w *World) Revive(host string) {
	w.Mu.Lock()
	defer w.Mu.Unlock()
	n := w.Nodes[host]
	if n == nil {
		return
	}
	n.Alive, n.Hang = true, false
	n.ReadOnly, n.SuperReadOnly, n.Offline = true, true, true
	n.SemiMaster, n.SemiSlave, n.WaitingAck = false, false, false
	n.PendingTx = nil
	n.StartupUnix = time.Now().Unix()
	if n.Repl != nil {
		n.Repl.IO, n.Repl.SQL = true, true // replication threads start with the server
	}
	w.logEv("env", host, "revive", "", "ok")
}

// ReplRound is the number of Replicate() rounds so far.
func (w *World) ReplRound() int {
	w.Mu.Lock()
	defer w.Mu.Unlock()
	return w.replRound
}

// Replicate moves data along every healthy replication link once (lock NOT held).
func (w *World) Replicate() {
	w.Mu.Lock()
	defer w.Mu.Unlock()
	w.replRound++
	for _, n := range w.Nodes {
		if n.Alive {
			if n.Slow > 0 {
				w.trackLink(n)
				if w.replRound%n.Slow != 0 {
					continue
				}
				n.InstantRepl = true
				w.progress(n)
				n.InstantRepl = false
				continue
			}
			w.progress(n)
		}
	}
}

func nextGtid(executed, uuid string) string {
	next := int64(1)
	for _, part := range strings.Split(executed, ",") {
		part = strings.TrimSpace(part)
		if !strings.HasPrefix(strings.ToLower(part), strings.ToLower(uuid)+":") {
			continue
		}
		for _, iv := range strings.Split(part[len(uuid)+1:], ":") {
			ab := strings.Split(iv, "-")
			hi, err := strconv.ParseInt(ab[len(ab)-1], 10, 64)
			if err == nil && hi+1 > next {
				next = hi + 1
			}
		}
	}
	return fmt.Sprintf("%s:%d", uuid, next)
}

// ClientWrite is one client transaction sent to host (lock NOT held): refused unless the server is up and
// writable; otherwise written to its binary log and — with semi-sync on — acknowledged only when
// wait_for_slave_count semi-sync replicas that replicate from it over a working link have received it
// (time-out infinite, wait_no_slave ON, AFTER_SYNC, as in the project's configuration).
func (w *World) ClientWrite(host string) Txn {
	w.Mu.Lock()
	defer w.Mu.Unlock()
	n := w.Nodes[host]
	t := Txn{Host: host, T: w.now(), Res: "refused"}
	if n == nil || !n.Alive || n.Hang || n.ReadOnly || n.SuperReadOnly || n.Offline {
		w.Acked = append(w.Acked, t)
		return t
	}
	t.Gtid = nextGtid(n.Executed, n.UUID)
	n.Executed = gtidUnion(n.Executed, t.Gtid)
	var ackers, receivers []*MyNode
	for _, r := range w.Nodes {
		if r != n && r.Alive && !r.Hang && r.Repl != nil && r.Repl.IO && r.Repl.Source == host && !w.Blocked(r.Host, host) {
			receivers = append(receivers, r)
			if r.SemiSlave {
				ackers = append(ackers, r)
			}
		}
	}
	if n.SemiMaster && len(ackers) < n.WaitCount {
		t.Res = "pending"
		n.WaitingAck = true
		if w.NetTimeout > 0 {
			n.PendingTx = append(n.PendingTx, len(w.Acked)) // index of the record appended below
		}
	} else {
		t.Res = "acked"
		if n.SemiMaster {
			// the master returns as soon as wait_for_slave_count replicas have acknowledged: the adversarial minimum is
			// that exactly these have the transaction now; everybody else gets it when replication moves
			sort.Slice(ackers, func(i, j int) bool { return ackers[i].Host < ackers[j].Host })
			chosen := ackers
			if w.AckPick != nil && len(ackers) > n.WaitCount {
				k := w.AckPick(len(ackers))
				chosen = nil
				for i := 0; i < n.WaitCount; i++ {
					chosen = append(chosen, ackers[(k+i)%len(ackers)])
				}
			}
			for _, r := range chosen {
				r.Retrieved = gtidUnion(r.Retrieved, t.Gtid)
				t.Ackers = append(t.Ackers, r.Host)
			}
			sort.Strings(t.Ackers)
		}
		_ = receivers
	}
	w.Acked = append(w.Acked, t)
	return t
}

type Repl struct {
	Source   string
	IO, SQL  bool
	IOErrno  int
	SQLErrno int
	Lag      *float64 // nil = compute: NULL unless both threads run, else LagWhenRunning
	LogFile  string
	LogPos   int64
}

type MyNode struct {
	Host  string
	UUID  string
	Alive bool // false: connections are refused (dial error)
	Hang  bool // true: server accepts but never answers (unreachable / timing out)
	RefuseCode int // != 0: every statement fails with this MySQL error code (e.g. 1040 = dubious)

	ReadOnly, SuperReadOnly, Offline bool
	SemiMaster, SemiSlave            bool
	WaitCount                        int
	Repl                             *Repl
	Executed, Retrieved              string // GTID text
	FlushLog, SyncBinlog             int
	Binlogs                          [][2]any // name, size
	StartupUnix                      int64
	WaitingAck                       bool // a commit is stuck waiting for a semi-sync ACK
	StuckRO                          int  // number of SET read_only attempts that fail with 1205 before succeeding (-1 = always)
	ApplyAfter                       time.Time // the SQL thread applies nothing before this instant (busy with a long transaction): received ≠ applied
	StickySQLErrno                   int  // != 0: every START REPLICA runs into this SQL error again (unless ClearErrOnStart)
	ClearErrOnStart                  bool // START REPLICA clears a non-permanent replication error (environment's choice)
	StuckUntilSSDisable              bool // SET read_only fails with 1205 until semi-sync is switched off (commits stuck waiting for an ACK)
	ProcessIDs                       []int
	LagWhenRunning                   float64
	InstantRepl                      bool // replication progress is applied whenever the node is looked at
	ReplMonTS                        string
	ReplMonDelay                     int64
	conns                            map[net.Conn]bool // value = a statement is in flight on this connection
	Conns                            int // open connections (leak accounting)
	TotalConns                       int
	Killed                           []int
	SrcLostAt                        time.Time // when the replication link to the source stopped working (NetTimeout > 0)
	Latency                          time.Duration // every statement takes this long to arrive
	Slow                             int       // > 0: replication moves only every Slow-th Replicate() round (lagging replica)
	PendingTx                        []int     // indexes into World.Acked of client commits waiting for a semi-sync ACK (sessions still connected)
}

var (
	curMu    sync.Mutex
	curWorld *World
	regOnce  sync.Once
)

func NewWorld() *World {
	w := &World{Nodes: map[string]*MyNode{}, Start: time.Now()}
	regOnce.Do(func() {
		driver.RegisterDialContext("tcp", func(ctx context.Context, addr string) (net.Conn, error) {
			curMu.Lock()
			cw := curWorld
			curMu.Unlock()
			if cw == nil {
				return nil, fmt.Errorf("no fake world")
			}
			return cw.dial(ctx, addr)
		})
	})
	curMu.Lock()
	curWorld = w
	curMu.Unlock()
	return w
}

func (w *World) AddNode(host string) *MyNode {
	n := &MyNode{Host: host, Alive: true, FlushLog: 1, SyncBinlog: 1, InstantRepl: true, WaitCount: 1,
		UUID:        fmt.Sprintf("%08x-0000-0000-0000-%012x", len(w.Nodes)+1, len(w.Nodes)+1),
		StartupUnix: 1000, Binlogs: [][2]any{{"mysql-bin.000001", int64(1000)}}}
	w.Nodes[host] = n
	return n
}

func (w *World) now() int64 { return int64(time.Since(w.Start)) }

func (w *World) logEv(kind, host, op, arg, res string) {
	w.Log = append(w.Log, Event{Seq: len(w.Log) + 1, T: w.now(), Kind: kind, Host: host, Op: op, Arg: arg, Res: res})
}

// Kill makes the node refuse new connections and severs the established ones (lock must NOT be held).
func (w *World) Kill(host string) {
	w.Mu.Lock()
	n := w.Nodes[host]
	var cs []net.Conn
	if n != nil {
		n.Alive = false
		n.PendingTx = nil // the waiting sessions die with the server: their clients never get an answer
		for c, busy := range n.conns {
			if !busy { // a statement in flight is answered first; the connection is cut right after (see serve)
				cs = append(cs, c)
			}
		}
	}
	w.logEv("env", host, "kill", "", "ok")
	w.Mu.Unlock()
	for _, c := range cs {
		c.Close()
	}
}

// Env records an adversary / scenario move in the same log.
func (w *World) Env(op, host, arg string) {
	w.Mu.Lock()
	w.logEv("env", host, op, arg, "ok")
	w.Mu.Unlock()
}

func (w *World) AddFault(host, op string, nth int, mode string) {
	w.Mu.Lock()
	w.Faults = append(w.Faults, &Fault{Host: host, Op: op, Nth: nth, Mode: mode})
	w.Mu.Unlock()
}

func (w *World) ClearFaults() {
	w.Mu.Lock()
	w.Faults = nil
	w.Mu.Unlock()
}

// A latency blip: every statement and every coordination call ISSUED inside [BlipFrom, BlipTo) takes BlipLat to arrive.
func (w *World) inBlipLocked() bool {
	now := time.Now()
	return w.BlipLat > 0 && !now.Before(w.BlipFrom) && now.Before(w.BlipTo)
}

// BlipSleep is called by the coordination fake before an operation (lock NOT held).
func (w *World) BlipSleep() {
	w.Mu.Lock()
	in, lat := w.inBlipLocked(), w.BlipLat
	w.Mu.Unlock()
	if in {
		time.Sleep(lat)
	}
}

// matchFault must be called with the lock held.
func (w *World) matchFault(host, op string) string {
	for _, f := range w.Faults {
		if (f.Host == "" || f.Host == host) && (f.Op == op || f.Op == "*") {
			f.seen++
			if f.Nth == 0 || f.seen == f.Nth {
				return f.Mode
			}
		}
	}
	return ""
}

func (w *World) dial(ctx context.Context, addr string) (net.Conn, error) {
	host, port, _ := net.SplitHostPort(addr)
	w.Mu.Lock()
	from := w.PortOwner[port]
	if w.Blocked(from, host) || w.DeadProcs[from] {
		w.Mu.Unlock()
		<-ctx.Done() // packets are dropped: the dial times out
		return nil, &net.OpError{Op: "dial", Net: "tcp", Err: fmt.Errorf("i/o timeout (fake partition %s-%s)", from, host)}
	}
	n := w.Nodes[host]
	if n == nil || !n.Alive {
		w.Mu.Unlock()
		// a refusal takes a round trip; without it performChangeMaster's status loop (app.go:2101, `continue`
		// without a sleep) would spin for ever on frozen virtual time
		time.Sleep(5 * time.Millisecond)
		return nil, &net.OpError{Op: "dial", Net: "tcp", Err: fmt.Errorf("connection refused (fake %s)", host)}
	}
	n.Conns++
	n.TotalConns++
	c, s := net.Pipe()
	if n.conns == nil {
		n.conns = map[net.Conn]bool{}
	}
	n.conns[s] = true
	w.Mu.Unlock()
	go w.serve(n, s, from)
	return c, nil
}

// ---------------------------------------------------------------------------------------------
// wire protocol

type pconn struct {
	c    net.Conn
	seq  byte
	from string // the mysync (machine) that opened the connection, when known
}

func (p *pconn) readPacket() ([]byte, error) {
	var hdr [4]byte
	if _, err := io.ReadFull(p.c, hdr[:]); err != nil {
		return nil, err
	}
	n := int(hdr[0]) | int(hdr[1])<<8 | int(hdr[2])<<16
	p.seq = hdr[3] + 1
	buf := make([]byte, n)
	if _, err := io.ReadFull(p.c, buf); err != nil {
		return nil, err
	}
	return buf, nil
}

func (p *pconn) writePacket(b []byte) error {
	hdr := []byte{byte(len(b)), byte(len(b) >> 8), byte(len(b) >> 16), p.seq}
	p.seq++
	_, err := p.c.Write(append(hdr, b...))
	return err
}

func lenenc(n uint64) []byte {
	switch {
	case n < 251:
		return []byte{byte(n)}
	case n < 1<<16:
		return []byte{0xfc, byte(n), byte(n >> 8)}
	case n < 1<<24:
		return []byte{0xfd, byte(n), byte(n >> 8), byte(n >> 16)}
	}
	b := make([]byte, 9)
	b[0] = 0xfe
	binary.LittleEndian.PutUint64(b[1:], n)
	return b
}

func lenencStr(s string) []byte { return append(lenenc(uint64(len(s))), s...) }

func (p *pconn) ok() error  { return p.writePacket([]byte{0, 0, 0, 2, 0, 0, 0}) }
func (p *pconn) eof() error { return p.writePacket([]byte{0xfe, 0, 0, 2, 0}) }
func (p *pconn) err(code int, msg string) error {
	b := []byte{0xff, byte(code), byte(code >> 8), '#'}
	b = append(b, "HY000"...)
	b = append(b, msg...)
	return p.writePacket(b)
}

// NULL marks a SQL NULL in a result row
const NULL = "\x00NULL\x00"

func (p *pconn) resultset(cols []string, rows [][]string) error {
	if err := p.writePacket(lenenc(uint64(len(cols)))); err != nil {
		return err
	}
	for _, c := range cols {
		var b []byte
		b = append(b, lenencStr("def")...)
		b = append(b, lenencStr("")...)
		b = append(b, lenencStr("")...)
		b = append(b, lenencStr("")...)
		b = append(b, lenencStr(c)...)
		b = append(b, lenencStr(c)...)
		b = append(b, 0x0c, 33, 0, 0xff, 0xff, 0, 0, 0xfd, 0, 0, 0, 0, 0)
		if err := p.writePacket(b); err != nil {
			return err
		}
	}
	if err := p.eof(); err != nil {
		return err
	}
	for _, r := range rows {
		var b []byte
		for _, v := range r {
			if v == NULL {
				b = append(b, 0xfb)
			} else {
				b = append(b, lenencStr(v)...)
			}
		}
		if err := p.writePacket(b); err != nil {
			return err
		}
	}
	return p.eof()
}

func (w *World) serve(n *MyNode, c net.Conn, from string) {
	defer func() {
		c.Close()
		w.Mu.Lock()
		n.Conns--
		delete(n.conns, c)
		w.Mu.Unlock()
	}()
	p := &pconn{c: c, from: from}
	// handshake v10
	hs := []byte{0x0a}
	hs = append(hs, "8.0.36-fake\x00"...)
	hs = append(hs, 1, 0, 0, 0)
	hs = append(hs, "12345678"...)
	hs = append(hs, 0)
	caps := uint32(0x200 | 0x8000 | 0x80000 | 1 | 4 | 8)
	hs = append(hs, byte(caps), byte(caps>>8), 33, 2, 0, byte(caps>>16), byte(caps>>24), 21)
	hs = append(hs, make([]byte, 10)...)
	hs = append(hs, "123456789012\x00"...)
	hs = append(hs, "mysql_native_password\x00"...)
	if err := p.writePacket(hs); err != nil {
		return
	}
	if _, err := p.readPacket(); err != nil {
		return
	}
	if err := p.ok(); err != nil {
		return
	}
	// the reader goroutine lets a hanging statement notice that the client went away
	pkts := make(chan []byte)
	done := make(chan struct{})
	quit := make(chan struct{}) // closed when this serving goroutine returns
	defer close(quit)
	go func() {
		defer close(done)
		for {
			b, err := p.readPacket()
			if err != nil {
				return
			}
			select {
			case pkts <- b:
			case <-quit:
				return
			}
		}
	}()
	for {
		var b []byte
		select {
		case b = <-pkts:
		case <-done:
			return
		}
		if len(b) == 0 {
			return
		}
		switch b[0] {
		case 0x01: // COM_QUIT
			return
		case 0x0e: // COM_PING
			if p.ok() != nil {
				return
			}
		case 0x03: // COM_QUERY
			q := strings.Join(strings.Fields(string(b[1:])), " ")
			w.Mu.Lock()
			n.conns[c] = true
			w.Mu.Unlock()
			okq := w.query(n, p, q, done)
			w.Mu.Lock()
			n.conns[c] = false
			dead := !n.Alive
			w.Mu.Unlock()
			if !okq || dead {
				return
			}
		default:
			if p.err(1047, "unsupported command") != nil {
				return
			}
		}
	}
}

// ---------------------------------------------------------------------------------------------
// statements

var (
	reChange   = regexp.MustCompile(`(?i)^CHANGE REPLICATION SOURCE TO SOURCE_HOST = '([^']*)'`)
	reWait     = regexp.MustCompile(`(?i)^SET GLOBAL rpl_semi_sync_master_wait_for_slave_count = (\d+)`)
	reFlush    = regexp.MustCompile(`(?i)^SET GLOBAL innodb_flush_log_at_trx_commit = (-?\d+)`)
	reSyncBin  = regexp.MustCompile(`(?i)^SET GLOBAL sync_binlog = (-?\d+)`)
	reKill     = regexp.MustCompile(`(?i)^KILL '?(\d+)'?`)
	reLockWait = regexp.MustCompile(`(?i)^SET SESSION lock_wait_timeout = (-?\d+)`)
)

// classify maps normalised statement text to the canonical op vocabulary.
func classify(q string) (op, arg string) {
	up := strings.ToUpper(q)
	switch {
	case up == "SELECT 1 AS OK":
		return "ping", ""
	case strings.HasPrefix(up, "SHOW REPLICA STATUS"), strings.HasPrefix(up, "SHOW SLAVE STATUS"):
		return "replica_status", ""
	case strings.HasPrefix(up, "SELECT SYS.VERSION_MAJOR()"):
		return "version", ""
	case strings.HasPrefix(up, "SELECT @@GLOBAL.GTID_EXECUTED"):
		return "gtid_executed", ""
	case strings.HasPrefix(up, "SELECT @@SERVER_UUID"):
		return "uuid", ""
	case up == "SHOW BINARY LOGS":
		return "binlogs", ""
	case strings.HasPrefix(up, "SELECT @@READ_ONLY AS READONLY"):
		return "is_readonly", ""
	case up == "SET GLOBAL SUPER_READ_ONLY = 1":
		return "set_ro_super", ""
	case up == "SET GLOBAL READ_ONLY = 1, SUPER_READ_ONLY = 0":
		return "set_ro_nosuper", ""
	case up == "SET GLOBAL READ_ONLY = 0":
		return "set_writable", ""
	case strings.HasPrefix(up, "STOP REPLICA IO_THREAD"), strings.HasPrefix(up, "STOP SLAVE IO_THREAD"):
		return "stop_io", ""
	case strings.HasPrefix(up, "START REPLICA IO_THREAD"), strings.HasPrefix(up, "START SLAVE IO_THREAD"):
		return "start_io", ""
	case strings.HasPrefix(up, "STOP REPLICA SQL_THREAD"), strings.HasPrefix(up, "STOP SLAVE SQL_THREAD"):
		return "stop_sql", ""
	case strings.HasPrefix(up, "START REPLICA SQL_THREAD"), strings.HasPrefix(up, "START SLAVE SQL_THREAD"):
		return "start_sql", ""
	case strings.HasPrefix(up, "STOP REPLICA FOR"), strings.HasPrefix(up, "STOP SLAVE FOR"):
		return "stop_replica", ""
	case strings.HasPrefix(up, "START REPLICA FOR"), strings.HasPrefix(up, "START SLAVE FOR"):
		return "start_replica", ""
	case strings.HasPrefix(up, "RESET REPLICA ALL"), strings.HasPrefix(up, "RESET SLAVE ALL"):
		return "reset_replica_all", ""
	case strings.HasPrefix(up, "CHANGE REPLICATION SOURCE TO"):
		if m := reChange.FindStringSubmatch(q); m != nil {
			return "change_source", m[1]
		}
		return "unknown", q
	case strings.HasPrefix(up, "SELECT @@RPL_SEMI_SYNC_MASTER_ENABLED AS MASTERENABLED"):
		return "ss_status", ""
	case up == "SET GLOBAL RPL_SEMI_SYNC_MASTER_ENABLED = 1, RPL_SEMI_SYNC_SLAVE_ENABLED = 0":
		return "ss_set_master", ""
	case up == "SET GLOBAL RPL_SEMI_SYNC_SLAVE_ENABLED = 1, RPL_SEMI_SYNC_MASTER_ENABLED = 0":
		return "ss_set_slave", ""
	case up == "SET GLOBAL RPL_SEMI_SYNC_SLAVE_ENABLED = 0, RPL_SEMI_SYNC_MASTER_ENABLED = 0":
		return "ss_disable", ""
	case strings.HasPrefix(up, "SET GLOBAL RPL_SEMI_SYNC_MASTER_WAIT_FOR_SLAVE_COUNT"):
		if m := reWait.FindStringSubmatch(q); m != nil {
			return "ss_wait_count", m[1]
		}
		return "unknown", q
	case strings.HasPrefix(up, "SELECT EVENT_SCHEMA, EVENT_NAME, DEFINER"):
		return "events", ""
	case strings.HasPrefix(up, "SET SESSION LOCK_WAIT_TIMEOUT"):
		return "lock_timeout", ""
	case strings.HasPrefix(up, "KILL "):
		if m := reKill.FindStringSubmatch(q); m != nil {
			return "kill", m[1]
		}
		return "unknown", q
	case strings.HasPrefix(up, "SELECT ID FROM INFORMATION_SCHEMA.PROCESSLIST"):
		return "processlist", ""
	case up == "SET GLOBAL OFFLINE_MODE = ON":
		return "set_offline", ""
	case up == "SET GLOBAL OFFLINE_MODE = OFF":
		return "set_online", ""
	case strings.HasPrefix(up, "SELECT @@GLOBAL.OFFLINE_MODE"):
		return "get_offline", ""
	case strings.HasPrefix(up, "SELECT COUNT(*) <> 0 AS ISWAITING"):
		return "waiting_ack", ""
	case strings.HasPrefix(up, "SELECT UNIX_TIMESTAMP(DATE_SUB(NOW()"):
		return "startup_time", ""
	case strings.HasPrefix(up, "SET GLOBAL INNODB_FLUSH_LOG_AT_TRX_COMMIT"):
		if m := reFlush.FindStringSubmatch(q); m != nil {
			return "set_flush", m[1]
		}
		return "unknown", q
	case strings.HasPrefix(up, "SET GLOBAL SYNC_BINLOG"):
		if m := reSyncBin.FindStringSubmatch(q); m != nil {
			return "set_sync_binlog", m[1]
		}
		return "unknown", q
	case strings.HasPrefix(up, "SELECT @@GLOBAL.INNODB_FLUSH_LOG_AT_TRX_COMMIT"):
		return "get_repl_settings", ""
	case strings.HasPrefix(up, "SELECT UNIX_TIMESTAMP(TS) AS TS FROM"):
		return "get_replmon_ts", ""
	case strings.HasPrefix(up, "SELECT FLOOR(CAST("):
		return "calc_replmon_delay", ""
	case strings.HasPrefix(up, "SELECT CHANNEL_NAME AS CHANNELNAME"):
		return "ext_repl_settings", ""
	}
	return "unknown", q
}

var mutating = map[string]bool{
	"set_ro_super": true, "set_ro_nosuper": true, "set_writable": true, "stop_io": true, "start_io": true,
	"stop_sql": true, "start_sql": true, "stop_replica": true, "start_replica": true, "reset_replica_all": true,
	"change_source": true, "ss_set_master": true, "ss_set_slave": true, "ss_disable": true, "ss_wait_count": true,
	"kill": true, "set_offline": true, "set_online": true, "set_flush": true, "set_sync_binlog": true,
}

// IsMutating reports whether a canonical op changes server state.
func IsMutating(op string) bool { return mutating[op] }

func gtidUnion(a, b string) string {
	sa, err := gomysql.ParseMysqlGTIDSet(a)
	if err != nil {
		return a
	}
	if b != "" {
		_ = sa.(*gomysql.MysqlGTIDSet).Update(b)
	}
	return sa.String()
}

// GtidUnion returns the union of two GTID set texts.
func GtidUnion(a, b string) string { return gtidUnion(a, b) }

// GtidContains reports a ⊇ b.
func GtidContains(a, b string) bool {
	sa, err1 := gomysql.ParseMysqlGTIDSet(a)
	sb, err2 := gomysql.ParseMysqlGTIDSet(b)
	if err1 != nil || err2 != nil {
		return false
	}
	return sa.Contain(sb)
}

// progress applies replication progress to n (lock held): the IO thread downloads what the source
// has executed, the SQL thread applies what was downloaded.
// linkUp: the replication link of n to its source works (lock held)
func (w *World) linkUp(n *MyNode) bool {
	if n.Repl == nil {
		return false
	}
	src := w.Nodes[n.Repl.Source]
	return src != nil && src.Alive && !src.Hang && !w.Blocked(n.Host, src.Host)
}

func (w *World) trackLink(n *MyNode) {
	if n.Repl != nil && w.NetTimeout > 0 {
		if w.linkUp(n) {
			n.SrcLostAt = time.Time{}
		} else if n.SrcLostAt.IsZero() {
			n.SrcLostAt = time.Now()
		}
	}
}

func (w *World) progress(n *MyNode) {
	w.trackLink(n)
	if n.Repl == nil || !n.InstantRepl {
		return
	}
	if n.Repl.IO {
		if src := w.Nodes[n.Repl.Source]; src != nil && src.Alive && !src.Hang && !w.Blocked(n.Host, src.Host) {
			n.Retrieved = gtidUnion(n.Retrieved, src.Executed)
		}
	}
	if n.Repl.SQL && !time.Now().Before(n.ApplyAfter) {
		n.Executed = gtidUnion(n.Executed, n.Retrieved)
	}
}

func b2s(b bool) string {
	if b {
		return "1"
	}
	return "0"
}

func yesno(b bool) string {
	if b {
		return "Yes"
	}
	return "No"
}

// query handles one statement; returns false when the connection must be dropped.
func (w *World) query(n *MyNode, p *pconn, q string, done chan struct{}) bool {
	op, arg := classify(q)
	if hook := w.OnStmt; hook != nil {
		hook(n.Host, op, arg)
	}
	if hook := w.OnStmtBy; hook != nil && op != "version" && op != "lock_timeout" {
		hook(p.from, n.Host, op, arg)
	}
	w.Mu.Lock()
	if op == "version" || op == "lock_timeout" {
		// plumbing statements: never faulted, never logged (canonicalisation, DESIGN §4.2)
		hang := n.Hang || w.Blocked(p.from, n.Host) || w.DeadProcs[p.from]
		w.Mu.Unlock()
		if hang {
			<-done
			return false
		}
		if op == "version" {
			return p.resultset([]string{"MajorVersion", "MinorVersion", "PatchVersion"}, [][]string{{"8", "0", "36"}}) == nil
		}
		return p.ok() == nil
	}
	lat := n.Latency
	if w.inBlipLocked() && w.BlipLat > lat {
		lat = w.BlipLat
	}
	if lat > 0 {
		// a slow server / network: the statement arrives (and takes effect) only after the latency has passed
		w.Mu.Unlock()
		select {
		case <-time.After(lat):
		case <-done:
			return false
		}
		w.Mu.Lock()
	}
	mode := w.matchFault(n.Host, op)
	if (n.Hang || w.Blocked(p.from, n.Host) || w.DeadProcs[p.from]) && mode == "" {
		mode = "hang"
	}
	if n.RefuseCode != 0 && mode == "" {
		mode = fmt.Sprintf("err:%d", n.RefuseCode)
	}
	logIt := func(res string) {
		if !(w.Mute && !mutating[op]) {
			w.logEv("sql", n.Host, op, arg, res)
			w.Log[len(w.Log)-1].By = p.from
		}
	}
	fail := func(m string) bool { // m = "err:<code>" / "lost:<code>"
		code, _ := strconv.Atoi(m[strings.Index(m, ":")+1:])
		if code == 0 {
			code = 1105
		}
		w.Mu.Unlock()
		return p.err(code, "injected fault") == nil
	}
	switch {
	case mode == "hang":
		logIt("hang")
		w.Mu.Unlock()
		<-done
		return false
	case mode == "drop":
		logIt("err:drop")
		w.Mu.Unlock()
		return false
	case strings.HasPrefix(mode, "err:"):
		logIt(mode)
		return fail(mode)
	}
	w.progress(n)
	cols, rows, isRS, errCode := w.apply(n, op, arg)
	switch {
	case mode == "hangafter":
		logIt("hangafter")
		w.Mu.Unlock()
		<-done
		return false
	case strings.HasPrefix(mode, "lost:"):
		logIt(mode)
		return fail(mode)
	}
	if errCode != 0 {
		logIt(fmt.Sprintf("err:%d", errCode))
		w.Mu.Unlock()
		return p.err(errCode, "fake: "+op) == nil
	}
	res := "ok"
	if isRS {
		if len(rows) == 0 {
			res = "norow"
		} else {
			res = "row:" + strings.Join(rows[0], "|")
			if len(res) > 300 {
				res = res[:300]
			}
		}
	}
	logIt(res)
	w.Mu.Unlock()
	if isRS {
		return p.resultset(cols, rows) == nil
	}
	return p.ok() == nil
}

// apply is MySQL's assumed behaviour for the statement vocabulary (T4). Lock held.
func (w *World) apply(n *MyNode, op, arg string) (cols []string, rows [][]string, isRS bool, errCode int) {
	one := func(c []string, r []string) ([]string, [][]string, bool, int) { return c, [][]string{r}, true, 0 }
	switch op {
	case "ping":
		return one([]string{"Ok"}, []string{"1"})
	case "replica_status":
		c := []string{"Source_Host", "Source_Port", "Source_Log_File", "Read_Source_Log_Pos", "Replica_IO_Running", "Replica_SQL_Running",
			"Last_Error", "Retrieved_Gtid_Set", "Executed_Gtid_Set", "Last_IO_Errno", "Last_IO_Error", "Last_SQL_Errno", "Seconds_Behind_Source"}
		if n.Repl == nil {
			return c, nil, true, 0
		}
		r := n.Repl
		lag := NULL
		if l := w.reportedLag(n); l != nil {
			lag = strconv.FormatFloat(*l, 'f', -1, 64)
		}
		lf := r.LogFile
		if lf == "" {
			lf = "mysql-bin.000001"
		}
		ioState := yesno(r.IO)
		if r.IO && w.NetTimeout > 0 && !w.linkUp(n) {
			// the IO thread of a replica whose source is gone is 'Connecting': at once when the source's
			// server is down (connection reset), after slave_net_timeout when packets are silently dropped
			src := w.Nodes[r.Source]
			if src == nil || !src.Alive || time.Since(n.SrcLostAt) >= w.NetTimeout {
				ioState = "Connecting"
				if r.Lag == nil {
					lag = NULL
				}
			}
		}
		return one(c, []string{r.Source, "3306", lf, strconv.FormatInt(r.LogPos, 10), ioState, yesno(r.SQL), "",
			n.Retrieved, n.Executed, strconv.Itoa(r.IOErrno), "", strconv.Itoa(r.SQLErrno), lag})
	case "gtid_executed":
		return one([]string{"Executed_Gtid_Set"}, []string{n.Executed})
	case "uuid":
		return one([]string{"server_uuid"}, []string{n.UUID})
	case "binlogs":
		var rs [][]string
		for _, b := range n.Binlogs {
			rs = append(rs, []string{fmt.Sprint(b[0]), fmt.Sprint(b[1])})
		}
		return []string{"Log_name", "File_size"}, rs, true, 0
	case "is_readonly":
		return one([]string{"ReadOnly", "SuperReadOnly"}, []string{b2s(n.ReadOnly), b2s(n.SuperReadOnly)})
	case "set_ro_super", "set_ro_nosuper":
		// SET GLOBAL read_only waits for the commit lock held by the sessions stuck waiting for a semi-sync ACK
		if n.StuckUntilSSDisable || (w.NetTimeout > 0 && len(n.PendingTx) > 0) {
			return nil, nil, false, 1205
		}
		if n.StuckRO != 0 {
			if n.StuckRO > 0 {
				n.StuckRO--
			}
			return nil, nil, false, 1205
		}
		n.ReadOnly = true
		n.SuperReadOnly = op == "set_ro_super"
	case "set_writable":
		n.ReadOnly, n.SuperReadOnly = false, false
	case "stop_io":
		if n.Repl != nil {
			n.Repl.IO = false
		}
	case "start_io":
		if n.Repl != nil && n.Repl.IOErrno == 0 {
			n.Repl.IO = true
		}
	case "stop_sql":
		if n.Repl != nil {
			n.Repl.SQL = false
		}
	case "start_sql":
		if n.Repl != nil && n.Repl.SQLErrno == 0 {
			n.Repl.SQL = true
		}
	case "stop_replica":
		if n.Repl != nil {
			n.Repl.IO, n.Repl.SQL = false, false
		}
	case "start_replica":
		if n.Repl == nil {
			return nil, nil, false, 1200 // ER_BAD_REPLICA: not configured as replica
		}
		if n.ClearErrOnStart {
			if n.Repl.IOErrno != 1236 && n.Repl.IOErrno != 13114 {
				n.Repl.IOErrno = 0
			}
			if n.Repl.SQLErrno != 1146 && n.Repl.SQLErrno != 1118 {
				n.Repl.SQLErrno = 0
			}
		}
		if n.StickySQLErrno != 0 && !n.ClearErrOnStart {
			// the offending event is still there: the SQL thread stops on it again, however replication was configured
			n.Repl.SQLErrno = n.StickySQLErrno
		}
		if n.Repl.IOErrno == 0 {
			n.Repl.IO = true
		}
		if n.Repl.SQLErrno == 0 {
			n.Repl.SQL = true
		}
	case "reset_replica_all":
		if n.Repl != nil && (n.Repl.IO || n.Repl.SQL) {
			return nil, nil, false, 3081 // must stop replica first
		}
		n.Repl = nil
		n.Retrieved = ""
	case "change_source":
		if n.Repl != nil && (n.Repl.IO || n.Repl.SQL) {
			return nil, nil, false, 3021 // must stop replica first
		}
		n.Repl = &Repl{Source: arg}
		n.Retrieved = ""
	case "ss_status":
		return one([]string{"MasterEnabled", "SlaveEnabled", "WaitSlaveCount"}, []string{b2s(n.SemiMaster), b2s(n.SemiSlave), strconv.Itoa(n.WaitCount)})
	case "ss_set_master":
		n.SemiMaster, n.SemiSlave = true, false
	case "ss_set_slave":
		n.SemiMaster, n.SemiSlave = false, true
	case "ss_disable":
		n.SemiMaster, n.SemiSlave = false, false
		n.WaitingAck = false
		n.StuckUntilSSDisable = false
		// switching semi-sync off releases the commits that wait for an acknowledgement: the sessions that are still
		// connected get OK, i.e. the client is told the transaction is committed
		for _, i := range n.PendingTx {
			if i < len(w.Acked) && w.Acked[i].Res == "pending" {
				w.Acked[i].Res = "acked"
				w.Acked[i].Late = true
			}
		}
		n.PendingTx = nil
	case "ss_wait_count":
		n.WaitCount, _ = strconv.Atoi(arg)
	case "events":
		return []string{"EVENT_SCHEMA", "EVENT_NAME", "DEFINER"}, nil, true, 0
	case "kill":
		id, _ := strconv.Atoi(arg)
		n.Killed = append(n.Killed, id)
		var rest []int
		for _, p := range n.ProcessIDs {
			if p != id {
				rest = append(rest, p)
			}
		}
		n.ProcessIDs = rest
		if len(rest) == 0 && n.StuckRO > 0 {
			n.StuckRO = 0
		}
	case "processlist":
		var rs [][]string
		for _, id := range n.ProcessIDs {
			rs = append(rs, []string{strconv.Itoa(id)})
		}
		return []string{"ID"}, rs, true, 0
	case "set_offline":
		n.Offline = true
		// offline_mode disconnects the client sessions: a commit that was waiting is never acknowledged to its client
		n.PendingTx = nil
	case "set_online":
		n.Offline = false
	case "get_offline":
		return one([]string{"OfflineMode"}, []string{b2s(n.Offline)})
	case "waiting_ack":
		return one([]string{"IsWaiting"}, []string{b2s(n.WaitingAck)})
	case "startup_time":
		return one([]string{"LastStartup"}, []string{strconv.FormatInt(n.StartupUnix, 10)})
	case "set_flush":
		n.FlushLog, _ = strconv.Atoi(arg)
	case "set_sync_binlog":
		n.SyncBinlog, _ = strconv.Atoi(arg)
	case "get_repl_settings":
		return one([]string{"InnodbFlushLogAtTrxCommit", "SyncBinlog"}, []string{strconv.Itoa(n.FlushLog), strconv.Itoa(n.SyncBinlog)})
	case "get_replmon_ts":
		return one([]string{"ts"}, []string{n.ReplMonTS})
	case "calc_replmon_delay":
		return one([]string{"delay"}, []string{strconv.FormatInt(n.ReplMonDelay, 10)})
	case "ext_repl_settings":
		return nil, nil, false, 1146
	default:
		return nil, nil, false, 1064
	}
	return nil, nil, false, 0
}

// ---------------------------------------------------------------------------------------------
// digests

type NodeDigest struct {
	Host          string `json:"host"`
	Alive         bool   `json:"alive"`
	Hang          bool   `json:"hang"`
	ReadOnly      bool   `json:"ro"`
	SuperReadOnly bool   `json:"sro"`
	Offline       bool   `json:"offline"`
	SemiMaster    bool   `json:"ss_master"`
	SemiSlave     bool   `json:"ss_slave"`
	WaitCount     int    `json:"wait_count"`
	IsReplica     bool   `json:"is_replica"`
	Source        string `json:"source"`
	IO            bool   `json:"io"`
	SQL           bool   `json:"sql"`
	IOErrno       int    `json:"io_errno"`
	SQLErrno      int    `json:"sql_errno"`
	Executed      string `json:"executed"`
	Retrieved     string `json:"retrieved"`
	FlushLog      int    `json:"flush_log"`
	SyncBinlog    int    `json:"sync_binlog"`
	UUID          string `json:"uuid"`
	Conns         int    `json:"conns"`
	Lag           *float64 `json:"lag_s"` // Seconds_Behind_Source as reported right now (null = NULL)
}

// reportedLag: Seconds_Behind_Source as the server reports it (nil = NULL): NULL only if the SQL thread is not running, or
// the IO thread is not running and the relay log is used up (lock held).
func (w *World) reportedLag(n *MyNode) *float64 {
	r := n.Repl
	if r == nil {
		return nil
	}
	if r.Lag != nil {
		return r.Lag
	}
	if r.SQL && (r.IO || gtidUnion(n.Executed, n.Retrieved) != gtidUnion(n.Executed, "")) {
		l := n.LagWhenRunning
		return &l
	}
	return nil
}

// ReportedLagNow: what a status query arriving at host right now would report (replication moves first, as it does when
// a statement is executed).  ok = false for an unknown host.
func (w *World) ReportedLagNow(host string) (lag *float64, ok bool) {
	w.Mu.Lock()
	defer w.Mu.Unlock()
	n := w.Nodes[host]
	if n == nil {
		return nil, false
	}
	w.progress(n)
	if l := w.reportedLag(n); l != nil {
		x := *l
		return &x, true
	}
	return nil, true
}

func (w *World) Digest() []NodeDigest {
	w.Mu.Lock()
	defer w.Mu.Unlock()
	return w.DigestNoLock()
}

// DigestNoLock is for hooks that already hold the lock.
func (w *World) DigestNoLock() []NodeDigest {
	var out []NodeDigest
	for _, n := range w.Nodes {
		d := NodeDigest{Host: n.Host, Alive: n.Alive, Hang: n.Hang, ReadOnly: n.ReadOnly, SuperReadOnly: n.SuperReadOnly, Offline: n.Offline,
			SemiMaster: n.SemiMaster, SemiSlave: n.SemiSlave, WaitCount: n.WaitCount, Executed: n.Executed, Retrieved: n.Retrieved,
			FlushLog: n.FlushLog, SyncBinlog: n.SyncBinlog, UUID: n.UUID, Conns: n.Conns}
		if n.Repl != nil {
			d.IsReplica, d.Source, d.IO, d.SQL, d.IOErrno, d.SQLErrno = true, n.Repl.Source, n.Repl.IO, n.Repl.SQL, n.Repl.IOErrno, n.Repl.SQLErrno
			d.Lag = w.reportedLag(n)
		}
		out = append(out, d)
	}
	sort.Slice(out, func(i, j int) bool { return out[i].Host < out[j].Host })
	return out
}

// TakeLog returns and clears the event log.
func (w *World) TakeLog() []Event {
	w.Mu.Lock()
	defer w.Mu.Unlock()
	l := w.Log
	w.Log = nil
	return l
}
