//go:build verif

package fakes

import (
	"encoding/json"
	"errors"
	"fmt"
	"sort"
	"strings"
	"time"

	"github.com/yandex/mysync/internal/dcs"
)

// Tree is the shared in-memory coordination tree (one per world); DCS is one client's view of it.
type Tree struct {
	W     *World
	Data  map[string][]byte
	Eph   map[string]string // path -> owning client id
	Lock  map[string]string // lock path -> owning client id
	Down  bool              // the whole service is unreachable: every call of every client fails
}

func NewTree(w *World) *Tree {
	return &Tree{W: w, Data: map[string][]byte{}, Eph: map[string]string{}, Lock: map[string]string{}}
}

var ErrFakeDCS = errors.New("fake dcs: injected failure")

// DCS implements dcs.DCS for one mysync process.
type DCS struct {
	T         *Tree
	ID        string // client id = hostname
	Connected bool
	// LockAnswer overrides AcquireLock: "" = real semantics, "true"/"false" = forced answer
	LockAnswer string
	// LockScript, when non-empty, is consumed one answer per AcquireLock call ("t"/"f"), then falls back
	LockScript []bool
	cb         func() error
}

func (t *Tree) Client(id string) *DCS { return &DCS{T: t, ID: id, Connected: true} }

func norm(p string) string {
	parts := strings.Split(p, "/")
	var out []string
	for _, x := range parts {
		if x != "" {
			out = append(out, x)
		}
	}
	return strings.Join(out, "/")
}

func (d *DCS) ev(op, path, arg, res string) {
	w := d.T.W
	if w.OnDcs != nil {
		w.OnDcs(d.ID, op, path, res)
	}
	if !(w.Mute && (op == "get" || op == "children" || op == "connected" || op == "acquire")) {
		w.Log = append(w.Log, Event{Seq: len(w.Log) + 1, T: w.now(), Kind: "dcs", Op: op, Host: path, Arg: arg, Res: res, By: d.ID})
	}
}

// fault must be called with the lock held; returns true when the call must fail (no effect) and
// "lost" when the effect happens but an error is returned
func (d *DCS) fault(op, path string) string {
	if d.T.Down || !d.Connected {
		return "err"
	}
	m := d.T.W.matchFault("dcs:"+path, op)
	if m == "" {
		m = d.T.W.matchFault("dcs", op)
	}
	switch {
	case m == "":
		return ""
	case strings.HasPrefix(m, "lost"):
		return "lost"
	}
	return "err"
}

func (d *DCS) IsConnected() bool {
	d.T.W.Mu.Lock()
	defer d.T.W.Mu.Unlock()
	return d.Connected && !d.T.Down
}

func (d *DCS) WaitConnected(timeout time.Duration) bool {
	if d.IsConnected() {
		return true
	}
	time.Sleep(timeout)
	return d.IsConnected()
}

func (d *DCS) Initialize()                                  {}
func (d *DCS) SetDisconnectCallback(callback func() error) { d.cb = callback }
func (d *DCS) Close()                                       {}

func (d *DCS) AcquireLock(path string) bool {
	w := d.T.W
	w.Mu.Lock()
	defer w.Mu.Unlock()
	path = norm(path)
	ans := false
	switch {
	case len(d.LockScript) > 0:
		ans = d.LockScript[0]
		d.LockScript = d.LockScript[1:]
	case d.LockAnswer == "true":
		ans = true
	case d.LockAnswer == "false":
		ans = false
	case d.fault("acquire", path) != "":
		ans = false
	default:
		owner, held := d.T.Lock[path]
		if !held {
			d.T.Lock[path] = d.ID
			ans = true
		} else {
			ans = owner == d.ID
		}
	}
	if ans && d.LockAnswer == "" && len(d.LockScript) == 0 {
		d.T.Lock[path] = d.ID
	}
	d.ev("acquire", path, "", fmt.Sprint(ans))
	return ans
}

func (d *DCS) ReleaseLock(path string) {
	w := d.T.W
	w.Mu.Lock()
	defer w.Mu.Unlock()
	path = norm(path)
	if d.T.Lock[path] == d.ID {
		delete(d.T.Lock, path)
	}
	d.ev("release", path, "", "ok")
}

func (d *DCS) put(path string, val any, eph bool, create bool) error {
	w := d.T.W
	w.BlipSleep()
	w.Mu.Lock()
	defer w.Mu.Unlock()
	path = norm(path)
	data, err := json.Marshal(val)
	if err != nil {
		panic(err)
	}
	op := "set"
	if create {
		op = "create"
	}
	f := d.fault(op, path)
	if f == "err" {
		d.ev(op, path, string(data), "err")
		return ErrFakeDCS
	}
	_, exists := d.T.Data[path]
	if create && exists {
		d.ev(op, path, string(data), "exists")
		return dcs.ErrExists
	}
	if !create && exists && eph && d.T.Eph[path] == "" {
		d.ev(op, path, string(data), "err:not-ephemeral")
		return fmt.Errorf("node %s exists, but not ephemeral, can't make it ephemeral", path)
	}
	// parents
	parts := strings.Split(path, "/")
	for i := 1; i < len(parts); i++ {
		pp := strings.Join(parts[:i], "/")
		if _, ok := d.T.Data[pp]; !ok {
			if create {
				d.ev(op, path, string(data), "err:noparent")
				return fmt.Errorf("fake dcs: no parent for %s", path)
			}
			d.T.Data[pp] = []byte{}
		}
	}
	d.T.Data[path] = data
	if eph && !exists {
		d.T.Eph[path] = d.ID
	}
	if f == "lost" {
		d.ev(op, path, string(data), "lost")
		return ErrFakeDCS
	}
	d.ev(op, path, string(data), "ok")
	return nil
}

func (d *DCS) Create(path string, value any) error          { return d.put(path, value, false, true) }
func (d *DCS) CreateEphemeral(path string, value any) error { return d.put(path, value, true, true) }
func (d *DCS) Set(path string, value any) error             { return d.put(path, value, false, false) }
func (d *DCS) SetEphemeral(path string, value any) error    { return d.put(path, value, true, false) }

func (d *DCS) Get(path string, dest any) error {
	w := d.T.W
	w.BlipSleep()
	w.Mu.Lock()
	defer w.Mu.Unlock()
	path = norm(path)
	if d.fault("get", path) != "" {
		d.ev("get", path, "", "err")
		return ErrFakeDCS
	}
	data, ok := d.T.Data[path]
	if !ok {
		d.ev("get", path, "", "notfound")
		return dcs.ErrNotFound
	}
	if err := json.Unmarshal(data, dest); err != nil {
		d.ev("get", path, "", "malformed")
		return dcs.ErrMalformed
	}
	d.ev("get", path, "", "ok")
	return nil
}

func (d *DCS) Delete(path string) error {
	w := d.T.W
	w.BlipSleep()
	w.Mu.Lock()
	defer w.Mu.Unlock()
	path = norm(path)
	f := d.fault("delete", path)
	if f == "err" {
		d.ev("delete", path, "", "err")
		return ErrFakeDCS
	}
	if _, ok := d.T.Data[path]; !ok {
		d.ev("delete", path, "", "ok:absent")
		return nil
	}
	for k := range d.T.Data {
		if strings.HasPrefix(k, path+"/") {
			d.ev("delete", path, "", "err:notempty")
			return fmt.Errorf("fake dcs: node %s not empty", path)
		}
	}
	delete(d.T.Data, path)
	delete(d.T.Eph, path)
	if f == "lost" {
		d.ev("delete", path, "", "lost")
		return ErrFakeDCS
	}
	d.ev("delete", path, "", "ok")
	return nil
}

func (d *DCS) children(path string) []string {
	var out []string
	pre := path + "/"
	if path == "" {
		pre = ""
	}
	for k := range d.T.Data {
		if strings.HasPrefix(k, pre) && k != path {
			rest := k[len(pre):]
			if !strings.Contains(rest, "/") {
				out = append(out, rest)
			}
		}
	}
	sort.Strings(out)
	return out
}

func (d *DCS) GetChildren(path string) ([]string, error) {
	w := d.T.W
	w.BlipSleep()
	w.Mu.Lock()
	defer w.Mu.Unlock()
	path = norm(path)
	if d.fault("children", path) != "" {
		d.ev("children", path, "", "err")
		return nil, ErrFakeDCS
	}
	if _, ok := d.T.Data[path]; !ok && path != "" {
		d.ev("children", path, "", "notfound")
		return nil, dcs.ErrNotFound
	}
	c := d.children(path)
	d.ev("children", path, "", "ok:"+strings.Join(c, ","))
	return c, nil
}

func (d *DCS) GetTree(path string) (any, error) {
	w := d.T.W
	w.BlipSleep()
	w.Mu.Lock()
	defer w.Mu.Unlock()
	path = norm(path)
	if d.fault("tree", path) != "" {
		return nil, ErrFakeDCS
	}
	var rec func(p string) any
	rec = func(p string) any {
		ch := d.children(p)
		if len(ch) == 0 {
			var v any
			if len(d.T.Data[p]) == 0 {
				return nil
			}
			if json.Unmarshal(d.T.Data[p], &v) != nil {
				return string(d.T.Data[p])
			}
			return v
		}
		m := map[string]any{}
		for _, c := range ch {
			cp := c
			if p != "" {
				cp = p + "/" + c
			}
			m[c] = rec(cp)
		}
		return m
	}
	return rec(path), nil
}

// ---- direct (unlogged) access for scenario scripts -------------------------------------------

func (t *Tree) Put(path string, val any) {
	t.W.Mu.Lock()
	defer t.W.Mu.Unlock()
	path = norm(path)
	data, _ := json.Marshal(val)
	parts := strings.Split(path, "/")
	for i := 1; i < len(parts); i++ {
		pp := strings.Join(parts[:i], "/")
		if _, ok := t.Data[pp]; !ok {
			t.Data[pp] = []byte{}
		}
	}
	t.Data[path] = data
}

func (t *Tree) PutRaw(path string, data []byte) {
	t.W.Mu.Lock()
	defer t.W.Mu.Unlock()
	t.Data[norm(path)] = data
}

func (t *Tree) Del(path string) {
	t.W.Mu.Lock()
	defer t.W.Mu.Unlock()
	path = norm(path)
	delete(t.Data, path)
	for k := range t.Data {
		if strings.HasPrefix(k, path+"/") {
			delete(t.Data, k)
		}
	}
}

func (t *Tree) Has(path string) bool {
	t.W.Mu.Lock()
	defer t.W.Mu.Unlock()
	_, ok := t.Data[norm(path)]
	return ok
}

func (t *Tree) GetJSON(path string, dest any) bool {
	t.W.Mu.Lock()
	defer t.W.Mu.Unlock()
	d, ok := t.Data[norm(path)]
	if !ok {
		return false
	}
	return json.Unmarshal(d, dest) == nil
}

// Snapshot returns path -> raw json for the digest (ephemeral health records excluded unless asked).
func (t *Tree) Snapshot(prefixes ...string) map[string]string {
	t.W.Mu.Lock()
	defer t.W.Mu.Unlock()
	return t.SnapshotNoLock(prefixes...)
}

// SnapshotNoLock: for hooks that run with the world's lock held.
func (t *Tree) SnapshotNoLock(prefixes ...string) map[string]string {
	out := map[string]string{}
	for k, v := range t.Data {
		if len(prefixes) == 0 {
			out[k] = string(v)
			continue
		}
		for _, p := range prefixes {
			if k == p || strings.HasPrefix(k, p+"/") {
				out[k] = string(v)
			}
		}
	}
	return out
}

// ExpireSession removes the ephemerals and locks of a client (session loss).
func (t *Tree) ExpireSession(id string) {
	t.W.Mu.Lock()
	defer t.W.Mu.Unlock()
	for p, o := range t.Eph {
		if o == id {
			delete(t.Data, p)
			delete(t.Eph, p)
		}
	}
	for p, o := range t.Lock {
		if o == id {
			delete(t.Lock, p)
		}
	}
}
