//go:build verif

package dcs

// C15 / C03(i): REAL zkDCS clients (go-zookeeper underneath) against the fake ZooKeeper ensemble,
// in virtual time.  One trace line per history: every client-level operation (begin / return), every
// primitive in server order, every session event, every injected fault.  The Lean replay runs the
// model programs of MysyncModel/Dcs/Zk.lean against the same history.

import (
	"encoding/json"
	"errors"
	"fmt"
	"math/rand"
	"os"
	"sort"
	"strings"
	"sync"
	"sync/atomic"
	"testing"
	"testing/synctest"
	"time"

	"github.com/go-zookeeper/zk"
	"github.com/rs/zerolog"

	"github.com/yandex/mysync/internal/log"
	"github.com/yandex/mysync/internal/verifh"
	"github.com/yandex/mysync/internal/verifh/zkfake"
)

type vHP struct {
	servers []string
	i       int
}

func (h *vHP) Init(servers []string) error { h.servers = servers; return nil }
func (h *vHP) Len() int                    { return len(h.servers) }
func (h *vHP) Next() (string, bool) {
	s := h.servers[h.i%len(h.servers)]
	h.i++
	return s, h.i%len(h.servers) == 0
}
func (h *vHP) Connected() {}

type zkEv map[string]any

type zkHist struct {
	mu  sync.Mutex
	evs []zkEv
}

func (h *zkHist) add(e zkEv) {
	h.mu.Lock()
	h.evs = append(h.evs, e)
	h.mu.Unlock()
}

type vZkClient struct {
	name string
	z    *zkDCS
	busy atomic.Bool
	opid int
}

func vZkConfig(host string, ttl time.Duration) *ZookeeperConfig {
	cfg, _ := DefaultZookeeperConfig()
	cfg.Hostname = host
	cfg.Namespace = "/test//ns/"
	cfg.Hosts = []string{"zk1:2181"}
	cfg.SessionTimeout = 3 * time.Second
	cfg.LockHeldTTL = ttl
	cfg.BackoffRandFactor = 0
	cfg.BackoffMaxRetries = 3
	return &cfg
}

// vNewZk builds a zkDCS the way NewZookeeper does, with the fake ensemble's dialer and a plain host
// provider (NewZookeeper itself resolves names and opens TCP connections: not reachable offline).
func vNewZk(t testing.TB, srv *zkfake.ZkServer, name string, cfg *ZookeeperConfig, logger *log.Logger, h *zkHist) *zkDCS {
	conn, ec, err := zk.Connect(cfg.Hosts, cfg.SessionTimeout, zk.WithLogger(zkLoggerProxy{logger}),
		zk.WithDialer(srv.Dialer(name)), zk.WithHostProvider(&vHP{}))
	if err != nil {
		t.Fatal(err)
	}
	tee := make(chan zk.Event, 16)
	go func() {
		for ev := range ec {
			if ev.Type == zk.EventSession {
				h.add(zkEv{"e": "ev", "c": name, "state": ev.State.String()})
			}
			tee <- ev
		}
		close(tee)
	}()
	z := &zkDCS{config: cfg, logger: logger, conn: conn, disconnectCallback: func() error { return nil }, eventsChan: tee}
	go z.handleEvents()
	return z
}

func zkErrClass(err error) string {
	switch {
	case err == nil:
		return "ok"
	case errors.Is(err, ErrExists):
		return "exists"
	case errors.Is(err, ErrNotFound):
		return "notfound"
	case errors.Is(err, ErrMalformed):
		return "malformed"
	case errors.Is(err, zk.ErrConnectionClosed):
		return "err:connClosed"
	case errors.Is(err, zk.ErrSessionExpired):
		return "err:sessionExpired"
	case errors.Is(err, zk.ErrNoNode):
		return "err:noNode"
	case errors.Is(err, zk.ErrNodeExists):
		return "err:nodeExists"
	case errors.Is(err, zk.ErrBadVersion):
		return "err:badVersion"
	case errors.Is(err, zk.ErrNotEmpty):
		return "err:notEmpty"
	case errors.Is(err, zk.ErrNoChildrenForEphemerals):
		return "err:noChildrenForEphemerals"
	case strings.Contains(err.Error(), "not ephemeral"):
		return "notephemeral"
	case errors.Is(err, zk.ErrNoServer), errors.Is(err, zk.ErrClosing):
		return "err:connClosed"
	}
	return "err:other:" + err.Error()
}

var zkKeys = []string{"a", "a/b", "a/b/c", "a/e", "x", "x/y", "health/h1", "health/h2"}

// lock keys are touched by AcquireLock / ReleaseLock only (and read by the data operations)
var zkLockKeys = []string{"lock", "lock", "a/l"}

func zkSpell(r *rand.Rand, key string) string {
	parts := strings.Split(key, "/")
	var sb strings.Builder
	for i := r.Intn(3); i > 0; i-- {
		sb.WriteByte('/')
	}
	for i, p := range parts {
		if i > 0 {
			sb.WriteByte('/')
			for j := r.Intn(4) / 3; j > 0; j-- {
				sb.WriteByte('/')
			}
		}
		sb.WriteString(p)
	}
	for i := r.Intn(4) / 2; i > 0; i-- {
		sb.WriteByte('/')
	}
	return sb.String()
}

func zkValue(r *rand.Rand) any {
	switch r.Intn(5) {
	case 0:
		return "v" + fmt.Sprint(r.Intn(3))
	case 1:
		return r.Intn(100)
	case 2:
		return map[string]any{"k": "v", "n": r.Intn(3)}
	case 3:
		return []any{"p", 1}
	}
	return true
}

type zkOp struct {
	op   string
	path string
	val  any
}

func zkGenOp(r *rand.Rand, mode string) zkOp {
	if mode == "lock" {
		o := zkOp{op: "acquire", path: zkSpell(r, "lock")}
		if r.Intn(10) < 3 {
			o.op = "release"
		}
		return o
	}
	key := zkKeys[r.Intn(len(zkKeys))]
	o := zkOp{path: zkSpell(r, key), val: zkValue(r)}
	switch x := r.Intn(100); {
	case x < 12:
		o.op = "create"
	case x < 22:
		o.op = "createEph"
	case x < 37:
		o.op = "set"
	case x < 47:
		o.op = "setEph"
	case x < 62:
		o.op = "get"
		if r.Intn(6) == 0 {
			o.path = zkSpell(r, zkLockKeys[r.Intn(3)])
		}
	case x < 74:
		o.op = "delete"
	case x < 82:
		o.op = "children"
	case x < 87:
		o.op = "tree"
	case x < 95:
		o.op = "acquire"
		o.path = zkSpell(r, zkLockKeys[r.Intn(3)])
	default:
		o.op = "release"
		o.path = zkSpell(r, zkLockKeys[r.Intn(3)])
	}
	return o
}

func canonJSON(v any) string {
	b, err := json.Marshal(v)
	if err != nil {
		return "!" + err.Error()
	}
	return string(b)
}

// run executes one operation on the real client and reports begin/ret into the history.
func (c *vZkClient) run(h *zkHist, srv *zkfake.ZkServer, o zkOp, done func()) {
	c.opid++
	id := c.opid
	srv.Mu.Lock()
	srv.CurOp[c.name] = id
	srv.Mu.Unlock()
	ev := zkEv{"e": "begin", "c": c.name, "opid": id, "op": o.op, "path": o.path, "now": time.Now().UnixNano()}
	if o.op == "create" || o.op == "createEph" || o.op == "set" || o.op == "setEph" {
		ev["val"] = canonJSON(o.val)
	}
	h.add(ev)
	c.busy.Store(true)
	go func() {
		res := ""
		func() {
			defer func() {
				if p := recover(); p != nil {
					res = fmt.Sprintf("PANIC:%v", p)
				}
			}()
			switch o.op {
			case "create":
				res = zkErrClass(c.z.Create(o.path, o.val))
			case "createEph":
				res = zkErrClass(c.z.CreateEphemeral(o.path, o.val))
			case "set":
				res = zkErrClass(c.z.Set(o.path, o.val))
			case "setEph":
				res = zkErrClass(c.z.SetEphemeral(o.path, o.val))
			case "get":
				var v any
				err := c.z.Get(o.path, &v)
				res = zkErrClass(err)
				if err == nil {
					res = "val:" + canonJSON(v)
				}
			case "delete":
				res = zkErrClass(c.z.Delete(o.path))
			case "children":
				ch, err := c.z.GetChildren(o.path)
				res = zkErrClass(err)
				if err == nil {
					sort.Strings(ch)
					res = "children:" + strings.Join(ch, ",")
				}
			case "tree":
				v, err := c.z.GetTree(o.path)
				res = zkErrClass(err)
				if err == nil {
					res = "tree:" + canonJSON(v)
				}
			case "acquire":
				res = fmt.Sprint(c.z.AcquireLock(o.path))
			case "init":
				c.z.Initialize()
				res = "done"
			case "release":
				c.z.ReleaseLock(o.path)
				res = "done"
			}
		}()
		h.add(zkEv{"e": "ret", "c": c.name, "opid": id, "res": res, "now": time.Now().UnixNano(), "connected": c.z.IsConnected()})
		c.busy.Store(false)
		done()
	}()
}

func zkSettle(d time.Duration) {
	synctest.Wait()
	if d > 0 {
		time.Sleep(d)
		synctest.Wait()
	}
}

// one history
func zkHistory(t *testing.T, out *verifh.Out, r *rand.Rand, idx int, mode string) {
	zl := zerolog.Nop()
	logger := &zl
	srv := zkfake.NewZkServer()
	h := &zkHist{}
	srv.OnPrim = func(p zkfake.ZkPrim) {
		b, _ := json.Marshal(p)
		var m map[string]any
		_ = json.Unmarshal(b, &m)
		m["e"] = "prim"
		m["c"] = p.Client
		h.add(m)
	}
	srv.OnSess = func(kind, client string, sid int64) {
		h.add(zkEv{"e": kind, "c": client, "sid": sid})
	}
	ttl := []time.Duration{0, 2 * time.Second, 30 * time.Second}[r.Intn(3)]
	nc := 1 + r.Intn(3)
	if mode == "lock" {
		nc = 2 + r.Intn(2)
	}
	names := []string{"h1", "h2", "h3"}[:nc]
	sameIdentity := nc >= 2 && r.Intn(12) == 0
	var cl []*vZkClient
	for i, n := range names {
		host := n
		if sameIdentity && i == 1 {
			host = names[0]
		}
		cl = append(cl, &vZkClient{name: n, z: vNewZk(t, srv, n, vZkConfig(host, ttl), logger, h)})
	}
	zkSettle(100 * time.Millisecond)
	for _, c := range cl {
		if !c.z.WaitConnected(5 * time.Second) {
			t.Fatalf("client %s did not connect", c.name)
		}
	}
	{
		var wg0 sync.WaitGroup
		wg0.Add(1)
		cl[0].run(h, srv, zkOp{op: "init"}, wg0.Done)
		zkSettle(0)
		wg0.Wait()
	}
	// the lock record a crashed predecessor ON THE SAME HOST left behind (same hostname, another pid): it is somebody else's
	if mode == "lock" && r.Intn(6) == 0 {
		data := fmt.Sprintf(`{"hostname":"%s","pid":%d}`, names[0], os.Getpid()+1)
		if srv.PutRawIfParent("/test/ns/lock", []byte(data)) {
			h.add(zkEv{"e": "putraw", "path": "/test/ns/lock", "data": data})
		}
	}
	h.add(zkEv{"e": "mark", "what": "initialized"})
	srv.Mu.Lock()
	srv.Gate = mode != "seq"
	srv.Mu.Unlock()

	nops := 8 + r.Intn(20)
	var wg sync.WaitGroup
	started := 0
	guard := 0
	for started < nops || anyBusy(cl) {
		guard++
		if guard > 5000 {
			h.add(zkEv{"e": "mark", "what": "driver-gave-up"})
			break
		}
		zkSettle(0)
		// environment actions between steps
		envP := 6
		if mode == "lock" {
			envP = 12
		}
		if x := r.Intn(100); x < envP {
			c := cl[r.Intn(len(cl))]
			switch r.Intn(6) {
			case 5:
				// the ensemble ends the session while the client is connected (e.g. after a pause of the client that it
				// did not notice itself): the connection is closed, the client learns about the expiry when it reconnects
				// at once and gets a fresh session — it is never without a session for a full session time-out
				srv.Expire(c.name)
				zkSettle(time.Duration(1+r.Intn(2)) * time.Second)
			case 0, 1:
				// the session expires at the server (E5: the client is cut off first and notices before)
				srv.CutConn(c.name)
				srv.SetUnreachable(c.name, true)
				zkSettle(c.z.config.SessionTimeout + time.Second)
				srv.Expire(c.name)
				zkSettle(time.Duration(r.Intn(3)) * time.Second)
				srv.SetUnreachable(c.name, false)
				zkSettle(3 * time.Second)
			case 2:
				srv.CutConn(c.name)
				zkSettle(2 * time.Second)
			case 3:
				// a value that does not parse, or a foreign lock record, written behind mysync's back
				key := zkKeys[r.Intn(len(zkKeys))]
				data := []string{"{not json", "", `{"hostname":"elsewhere","pid":1}`}[r.Intn(3)]
				full := "/test/ns/" + key
				if srv.PutRawIfParent(full, []byte(data)) {
					h.add(zkEv{"e": "putraw", "path": full, "data": data})
				}
			case 4:
				// a short outage of the whole ensemble for this client
				srv.CutConn(c.name)
				srv.SetUnreachable(c.name, true)
				zkSettle(time.Duration(200+r.Intn(1500)) * time.Millisecond)
				srv.SetUnreachable(c.name, false)
				zkSettle(2 * time.Second)
			}
			continue
		}
		// start operations
		if started < nops {
			var idle []*vZkClient
			for _, c := range cl {
				if !c.busy.Load() {
					idle = append(idle, c)
				}
			}
			if len(idle) > 0 && (mode != "seq" || !anyBusy(cl)) && (mode == "seq" || r.Intn(3) > 0 || !anyBusy(cl)) {
				c := idle[r.Intn(len(idle))]
				wg.Add(1)
				c.run(h, srv, zkGenOp(r, mode), wg.Done)
				started++
				zkSettle(0)
			}
		}
		// serve one pending primitive (gated mode), or let time pass
		pend := srv.PendingClients()
		if len(pend) > 0 {
			i := r.Intn(len(pend))
			fate := ""
			lostP, dropP := 3, 6
			if mode == "lock" {
				lostP, dropP = 10, 14 // ReleaseLock / AcquireLock under lost replies is where retries matter
			}
			switch x := r.Intn(100); {
			case x < lostP:
				fate = "lost"
			case x < dropP:
				fate = "dropped"
			}
			srv.Serve(i, fate)
			if fate != "" {
				h.add(zkEv{"e": "fate", "c": pend[i], "fate": fate})
			}
			zkSettle(0)
		} else if anyBusy(cl) {
			zkSettle(50 * time.Millisecond)
		}
	}
	zkSettle(0)
	srv.Mu.Lock()
	srv.Gate = false
	srv.Mu.Unlock()
	wg.Wait()
	tree := srv.Tree()
	h.mu.Lock()
	evs := append([]zkEv{}, h.evs...)
	h.mu.Unlock()
	sess := map[string]int64{}
	for _, c := range cl {
		sess[c.name] = srv.LiveSession(c.name)
	}
	ids := map[string]string{}
	for _, c := range cl {
		ids[c.name] = canonJSON(LockOwner{c.z.config.Hostname, os.Getpid()})
	}
	for _, c := range cl {
		c.z.Close()
	}
	zkSettle(2 * time.Second)
	out.Line(map[string]any{"k": "zkhist", "idx": idx, "mode": mode, "ns": "/test//ns/", "ttl": int64(ttl), "clients": names, "ids": ids,
		"max_retries": 3, "events": evs, "final_tree": tree, "final_sessions": sess})
}

func anyBusy(cl []*vZkClient) bool {
	for _, c := range cl {
		if c.busy.Load() {
			return true
		}
	}
	return false
}

func TestVerifC15(t *testing.T) {
	out := verifh.Open(t)
	defer out.Close()
	r := verifh.Rand()
	n := verifh.Pick(400, 4000)
	for i := 0; i < n; i++ {
		mode := []string{"seq", "gated", "lock", "gated", "lock"}[i%5]
		seed := r.Int63()
		synctest.Test(t, func(t *testing.T) {
			zkHistory(t, out, rand.New(rand.NewSource(seed)), i, mode)
		})
	}
}
