//go:build verif

package dcs

// Exported constructor for the cluster simulation (package app): a zkDCS exactly as NewZookeeper builds it,
// but over a caller-supplied dialer (the fake ensemble) and a plain host provider — NewZookeeper resolves
// names and opens TCP connections, which the sealed sandbox cannot do.

import (
	"net"
	"time"

	"github.com/go-zookeeper/zk"

	"github.com/yandex/mysync/internal/log"
)

type verifHP struct {
	servers []string
	i       int
}

func (h *verifHP) Init(servers []string) error { h.servers = servers; return nil }
func (h *verifHP) Len() int                    { return len(h.servers) }
func (h *verifHP) Next() (string, bool) {
	s := h.servers[h.i%len(h.servers)]
	h.i++
	return s, h.i%len(h.servers) == 0
}
func (h *verifHP) Connected() {}

func VerifNewZookeeper(cfg *ZookeeperConfig, logger *log.Logger, dialer func(network, address string, timeout time.Duration) (net.Conn, error)) (DCS, error) {
	conn, ec, err := zk.Connect(cfg.Hosts, cfg.SessionTimeout, zk.WithLogger(zkLoggerProxy{logger}),
		zk.WithDialer(dialer), zk.WithHostProvider(&verifHP{}))
	if err != nil {
		return nil, err
	}
	z := &zkDCS{config: cfg, logger: logger, conn: conn, disconnectCallback: func() error { return nil }, eventsChan: ec}
	go z.handleEvents()
	return z, nil
}
