//go:build verif

package app

import (
	"runtime/debug"
	"encoding/json"
	"fmt"
	"math/rand"
	"os"
	"strings"
	"testing"
	"time"

	nodestate "github.com/yandex/mysync/internal/app/node_state"
	"github.com/yandex/mysync/internal/config"
	"github.com/yandex/mysync/internal/verifh"
	"github.com/yandex/mysync/internal/verifh/fakes"
)

// ---- observer: event log of one manager iteration -> abstract steps of the Lean model ---------------

type mgrObs struct {
	Steps    []string `json:"steps"`
	Next     string   `json:"next"`
	FailedAt int64    `json:"failed_at"` // unix ns, 0 = zero
	Acquires int      `json:"acquires"`
	Mutating []string `json:"mutating"` // host:op of every mutating statement
	DcsWrites []string `json:"dcs_writes"` // op:path of every coordination write
	Perform  string   `json:"perform"`
	CreateSwitchRes string `json:"create_switch_res"`
	AfterAck []string `json:"after_ack"` // what was changed AFTER the acknowledgement of full maintenance was written in this iteration
}

func mgrObserve(evs []fakes.Event, master string, maintMode string, shouldLeave bool, emerge bool, panicked string, next appState, active bool) mgrObs {
	o := mgrObs{Steps: []string{}, Next: string(next), Mutating: []string{}, DcsWrites: []string{}}
	var switchSets []fakes.Event
	finished, rejected, started := false, false, false
	acked := false
	for _, e := range evs {
		switch e.Kind {
		case "sql":
			if fakes.IsMutating(e.Op) {
				o.Mutating = append(o.Mutating, e.Host+":"+e.Op)
				if acked {
					o.AfterAck = append(o.AfterAck, e.Host+":"+e.Op)
				}
			}
		case "dcs":
			if e.Op == "acquire" {
				o.Acquires++
			}
			if e.Op == "set" || e.Op == "create" || e.Op == "delete" {
				o.DcsWrites = append(o.DcsWrites, e.Op+":"+e.Host)
				if acked && e.Host != "maintenance" {
					o.AfterAck = append(o.AfterAck, "dcs:"+e.Op+":"+e.Host)
				}
				if e.Op == "set" && e.Host == "maintenance" && e.Res == "ok" && maintMode == "full-unacked" && strings.Contains(e.Arg, `"mysync_paused":true`) {
					acked = true
				}
			}
		}
	}
	if emerge {
		o.Steps = append(o.Steps, "writeEmerge")
	}
	// one pass in event order; markers: `events` query at the master = repairCluster reached,
	// children(recovery) = updateActiveNodes reached, children(optimization_nodes) = optimisation sync reached
	seenRepair, seenUpdate, seenSync, seenSwitchSet := false, false, false, false
	for _, e := range evs {
		if e.Kind == "dcs" {
			switch {
			case e.Op == "set" && e.Host == "maintenance":
				if maintMode == "light" {
					o.Steps = append(o.Steps, "setMaintPaused:"+fmt.Sprint(e.Res == "ok"))
				} else {
					o.Steps = append(o.Steps, "enterMaintenance:"+fmt.Sprint(e.Res == "ok"))
				}
			case e.Op == "set" && e.Host == "switch":
				switchSets = append(switchSets, e)
				if !seenSwitchSet {
					seenSwitchSet = true
					o.Steps = append(o.Steps, "@SWITCH@")
				}
			case e.Op == "set" && e.Host == "last_switch":
				finished = true
			case e.Op == "set" && e.Host == "last_rejected_switch":
				rejected = true
			case e.Op == "create" && e.Host == "switch":
				o.Steps = append(o.Steps, "issueFailover")
				o.CreateSwitchRes = e.Res
			case e.Op == "children" && e.Host == "recovery" && !seenUpdate && !seenSwitchSet:
				seenUpdate = true
				o.Steps = append(o.Steps, "updateActiveNodes")
			case e.Op == "children" && e.Host == "optimization_nodes" && !seenSync && !seenSwitchSet:
				seenSync = true
				o.Steps = append(o.Steps, "syncOptimization")
			}
		}
		if e.Kind == "sql" && e.Op == "events" && e.Host == master && !seenRepair && !seenSwitchSet {
			seenRepair = true
			o.Steps = append(o.Steps, "repairCluster")
		}
	}
	// full maintenance with a failing semi-sync disable / active_nodes delete never reaches the write
	if maintMode == "full-unacked" {
		hasSet := false
		for _, s := range o.Steps {
			if strings.HasPrefix(s, "enterMaintenance") {
				hasSet = true
			}
		}
		if !hasSet && string(next) == stateManager && active {
			o.Steps = append(o.Steps, "enterMaintenance:false")
		}
	}
	if maintMode == "light" && shouldLeave && o.Acquires >= 2 {
		// the markers seen belong to leaveMaintenance, not to the manager iteration itself
		var keep []string
		for _, x := range o.Steps {
			if x != "repairCluster" && x != "updateActiveNodes" && x != "syncOptimization" {
				keep = append(keep, x)
			}
		}
		o.Steps = append(keep, "tryLeaveMaintenance")
	}
	var swSteps []string
	if len(switchSets) > 0 {
		first := switchSets[0]
		var sw Switchover
		_ = json.Unmarshal([]byte(first.Arg), &sw)
		if sw.Result != nil && strings.HasPrefix(sw.Result.Error, "switchover timed out") {
			swSteps = append(swSteps, "switchTimedOut")
		} else {
			started = first.Res == "ok"
			swSteps = append(swSteps, "switchStarted:"+fmt.Sprint(started))
			if started {
				switch {
				case finished:
					o.Perform = "ok"
					swSteps = append(swSteps, "switchPerformed:ok", "switchFinished")
				case len(switchSets) > 1:
					o.Perform = "failed"
					swSteps = append(swSteps, "switchPerformed:failed", "switchFailed")
				case panicked != "":
					o.Perform = "panicked"
					swSteps = append(swSteps, "switchPerformed:panicked")
				default:
					o.Perform = "aborted"
					swSteps = append(swSteps, "switchPerformed:aborted")
				}
			}
		}
	} else if rejected {
		// FinishSwitchover(err): delete switch + set last_rejected_switch; the error text tells the two rejections apart
		timedOut := false
		for _, e := range evs {
			if e.Kind == "dcs" && e.Op == "set" && e.Host == "last_rejected_switch" {
				var sw Switchover
				_ = json.Unmarshal([]byte(e.Arg), &sw)
				if sw.Result != nil && strings.HasPrefix(sw.Result.Error, "switchover timed out") {
					timedOut = true
				}
			}
		}
		if timedOut {
			o.Steps = append(o.Steps, "switchTimedOut")
		} else {
			o.Steps = append(o.Steps, "switchRejected")
		}
	}
	{
		var st []string
		for _, x := range o.Steps {
			if x == "@SWITCH@" {
				st = append(st, swSteps...)
			} else {
				st = append(st, x)
			}
		}
		if st == nil {
			st = []string{}
		}
		o.Steps = st
	}
	if panicked != "" {
		o.Steps = append(o.Steps, "PANIC")
	}
	return o
}

// ---- scenario ------------------------------------------------------------------------------------

type mgrScn struct {
	n          int
	semiSync   bool
	w          int
	failover   bool
	delay      time.Duration
	resetup    bool
	maxAtt     int
	masterHealth []int // per tick: 0 ok, 1 missing, 2 ping failed, 3 fs readonly, 4 crash recovered, 5 crash recovered + ping failed, 6 crash recovered + fs readonly
	masterDown []bool  // per tick: manager cannot reach the master
	race       bool    // another initiator files a request between this iteration's read of the request key and its own filing
	recGone    int     // 0 none; k: the k-th non-master host publishes no health record although its server is fine (its daemon lost the coordination service)
	sleeps     []time.Duration
	replica    []int // per replica: 0 running, 1 stopped, 2 dead
	active     int   // 0 full, 1 master only, 2 all but last, 3 absent
	maint      int   // 0 absent, 1 light acked, 2 light unacked, 3 light should-leave, 4 full unacked, 5 full acked, 6 read error, 7 read error + file
	sw         int   // 0 absent, 1 manual switchover to h2, 2 manual failover-type from master, 3 auto failover, 4 read error, 5 worker request without master_transition
	swAge      int   // 0 now, 1 31 min ago, 2 zero initiated_at, 3 exactly 30 min ago
	runCount   int
	last       int // 0 absent, 1 auto 10 min ago, 2 auto 2 h ago, 3 manual 10 min ago, 4 result nil, 5 read error, 6 auto exactly cooldown ago
	lock       int // 0 held, 1 not held, 2 disconnected
	dcsFault   int // 0 none, 1 set maintenance fails, 2 set switch fails, 3 create switch fails(lost)
	masterKey  int // 0 h1, 1 ghost (unregistered)
	swFail     int // 0 none, 1 target replica refuses read-only (switch fails), 2 operator aborts during the procedure, 3 abort + failing attempt, 4 old master refuses read-only (rejected inside), 5 nobody can be made writable
}

func mgrCfgJSON(c *config.Config) map[string]any {
	return map[string]any{"failover": c.Failover, "failover_delay": int64(c.FailoverDelay), "failover_cooldown": int64(c.FailoverCooldown),
		"resetup_crashed_hosts": c.ResetupCrashedHosts, "semi_sync": c.SemiSync, "wait_count": c.RplSemiSyncMasterWaitForSlaveCount,
		"switchover_timeout": int64(c.SwitchoverTimeout), "switchover_max_attempts": c.SwitchoverMaxAttempts}
}

func mgrRun(t *testing.T, out *verifh.Out, s mgrScn, dir string, kind string) {
	wd, tree, hosts := vStdWorld(s.n, s.semiSync, s.w)
	cfg := vConfig(hosts[0], dir)
	// the manager runs on the LAST host so that an unreachable master is not its local node
	cfg = vConfig(hosts[len(hosts)-1], dir)
	cfg.SemiSync, cfg.RplSemiSyncMasterWaitForSlaveCount = s.semiSync, s.w
	cfg.Failover, cfg.FailoverDelay, cfg.FailoverCooldown = s.failover, s.delay, time.Hour
	cfg.ResetupCrashedHosts = s.resetup
	cfg.SwitchoverMaxAttempts = s.maxAtt
	cfg.SlaveCatchUpTimeout = 20 * time.Second
	cfg.WaitReplicationStartTimeout = 3 * time.Second
	cfg.DisableSemiSyncReplicationOnMaintenance = true
	_ = os.Remove(cfg.Emergefile)
	_ = os.Remove(cfg.Maintenancefile)
	app, d := vNewApp(tree, cfg)
	defer vClose(app)
	app.state = stateManager
	master := hosts[0]
	if s.masterKey == 1 {
		tree.Put("master", "ghost")
	}
	for i, r := range s.replica {
		if i+1 >= len(hosts) {
			break
		}
		n := wd.Nodes[hosts[i+1]]
		switch r {
		case 1:
			n.Repl.IO, n.Repl.SQL = false, false
		case 2:
			n.Alive = false
		}
	}
	// the manager's own node must stay reachable (it is the local node)
	wd.Nodes[cfg.Hostname].Alive = true
	switch s.active {
	case 1:
		tree.Put("active_nodes", []string{master})
	case 2:
		tree.Put("active_nodes", hosts[:len(hosts)-1])
	case 3:
		tree.Del("active_nodes")
	case 4:
		// a host that was removed from the cluster is still listed
		tree.Put("active_nodes", append(append([]string{}, hosts...), "gone"))
	}
	now := time.Now()
	maintMode, shouldLeave := "", false
	switch s.maint {
	case 1:
		tree.Put("maintenance", Maintenance{InitiatedBy: "op", InitiatedAt: now, MySyncPaused: true, Mode: LightMode})
		maintMode = "light"
	case 2:
		tree.Put("maintenance", Maintenance{InitiatedBy: "op", InitiatedAt: now, Mode: LightMode})
		maintMode = "light"
	case 3:
		tree.Put("maintenance", Maintenance{InitiatedBy: "op", InitiatedAt: now, MySyncPaused: true, ShouldLeave: true, Mode: LightMode})
		maintMode, shouldLeave = "light", true
	case 4:
		tree.Put("maintenance", Maintenance{InitiatedBy: "op", InitiatedAt: now, Mode: FullMode})
		maintMode = "full-unacked"
	case 5:
		tree.Put("maintenance", Maintenance{InitiatedBy: "op", InitiatedAt: now, MySyncPaused: true, Mode: FullMode})
		maintMode = "full"
	case 6, 7:
		wd.AddFault("dcs:maintenance", "get", 0, "err")
		if s.maint == 7 {
			_ = os.WriteFile(cfg.Maintenancefile, []byte{}, 0o644)
		}
	}
	var swRec *Switchover
	if (s.sw >= 1 && s.sw <= 3) || s.sw == 5 {
		sw := Switchover{InitiatedBy: "op", RunCount: s.runCount}
		switch s.sw {
		case 1:
			sw.To, sw.Cause, sw.MasterTransition = hosts[1], CauseManual, SwitchoverTransition
		case 2:
			sw.From, sw.Cause, sw.MasterTransition = master, CauseManual, FailoverTransition
		case 3:
			sw.From, sw.Cause, sw.MasterTransition = master, CauseAuto, FailoverTransition
		case 5:
			// written by an external worker: no master_transition at all (handled as a planned switchover)
			sw.To, sw.Cause = hosts[1], CauseWorker
		}
		switch s.swAge {
		case 0:
			sw.InitiatedAt = now
		case 1:
			sw.InitiatedAt = now.Add(-31 * time.Minute)
		case 3:
			sw.InitiatedAt = now.Add(-30 * time.Minute)
		}
		if s.runCount > 0 {
			sw.Result = &SwitchoverResult{Ok: false, Error: "earlier attempt", FinishedAt: now.Add(-time.Second)}
		}
		tree.Put("switch", sw)
		swRec = &sw
	} else if s.sw == 4 {
		wd.AddFault("dcs:switch", "get", 0, "err")
	}
	switch s.last {
	case 1:
		tree.Put("last_switch", Switchover{Cause: CauseAuto, Result: &SwitchoverResult{Ok: true, FinishedAt: now.Add(-10 * time.Minute)}})
	case 2:
		tree.Put("last_switch", Switchover{Cause: CauseAuto, Result: &SwitchoverResult{Ok: true, FinishedAt: now.Add(-2 * time.Hour)}})
	case 3:
		tree.Put("last_switch", Switchover{Cause: CauseManual, Result: &SwitchoverResult{Ok: true, FinishedAt: now.Add(-10 * time.Minute)}})
	case 4:
		tree.Put("last_switch", Switchover{Cause: CauseAuto})
	case 5:
		wd.AddFault("dcs:last_switch", "get", 0, "err")
	case 6:
		tree.Put("last_switch", Switchover{Cause: CauseAuto, Result: &SwitchoverResult{Ok: true, FinishedAt: now.Add(-time.Hour)}})
	}
	switch s.dcsFault {
	case 1:
		wd.AddFault("dcs:maintenance", "set", 0, "err")
	case 2:
		wd.AddFault("dcs:switch", "set", 0, "err")
	case 3:
		wd.AddFault("dcs:switch", "create", 0, "lost")
	}
	switch s.lock {
	case 0:
		d.LockAnswer = "true"
	case 1:
		d.LockAnswer = "false"
	case 2:
		d.Connected = false
	}
	abortedNow := false
	switch s.swFail {
	case 1:
		wd.Nodes[hosts[1]].StuckRO = -1
	case 2:
		wd.OnStmt = func(host, op, arg string) {
			if op == "stop_io" {
				tree.Del("switch")
				abortedNow = true
			}
		}
	case 3:
		// the operator aborts while an attempt is running, and that attempt then fails
		wd.Nodes[hosts[1]].StuckRO = -1
		wd.OnStmt = func(host, op, arg string) {
			if op == "set_ro_super" || op == "set_ro_nosuper" {
				tree.Del("switch")
				abortedNow = true
			}
		}
	case 4:
		// the old master cannot be made read-only: a planned switchover is rejected inside the procedure
		wd.Nodes[master].StuckRO = -1
	case 5:
		// the promoted node cannot be opened for writes, however often it is tried: the attempt fails at the very end
		wd.AddFault("", "set_writable", 0, "err:1205")
	}
	// ticks
	var badSince time.Time
	for tick := range s.masterHealth {
		if tick > 0 {
			time.Sleep(s.sleeps[tick-1])
		}
		mn := wd.Nodes[master]
		mn.Alive = !s.masterDown[tick]
		if master == cfg.Hostname {
			mn.Alive = true
		}
		// health records as the hosts' own daemons would publish them (replicas: truthful)
		_ = app.cluster.UpdateHostsInfo()
		view := app.getClusterStateFromDB() // only used to build truthful replica health records
		dcsView := map[string]*nodestate.NodeState{}
		for h, st := range view {
			cp := *st
			cp.PingOk = wd.Nodes[h].Alive
			dcsView[h] = &cp
		}
		mh := &nodestate.NodeState{PingOk: true, IsMaster: true, MasterState: &nodestate.MasterState{ExecutedGtidSet: mn.Executed},
			DaemonState: &nodestate.DaemonState{}, SemiSyncState: &nodestate.SemiSyncState{MasterEnabled: mn.SemiMaster, WaitSlaveCount: mn.WaitCount}}
		switch s.masterHealth[tick] {
		case 1:
			mh = nil
		case 2:
			mh.PingOk = false
		case 3:
			mh.IsFileSystemReadonly = true
		case 4:
			mh.DaemonState.CrashRecovery = true
		case 5: // came back through crash recovery earlier (the flag stays while that mysqld lives) and is failing now
			mh.PingOk = false
			mh.DaemonState.CrashRecovery = true
		case 6:
			mh.IsFileSystemReadonly = true
			mh.DaemonState.CrashRecovery = true
		}
		// ground truth for "bad at every evaluation for at least the delay": since when has the master's record been bad
		// at every tick of this manager without interruption (zero = it was good at the last tick)
		if mh == nil || !mh.PingOk || mh.IsFileSystemReadonly {
			if badSince.IsZero() {
				badSince = time.Now()
			}
		} else {
			badSince = time.Time{}
		}
		tree.Del("health")
		goneHost := ""
		if s.recGone > 0 {
			var others []string
			for _, h := range vSortedKeys(dcsView) {
				if h != master {
					others = append(others, h)
				}
			}
			if s.recGone <= len(others) {
				goneHost = others[s.recGone-1]
			}
		}
		for h, st := range dcsView {
			if h == master {
				continue
			}
			if wd.Nodes[h].Alive && h != goneHost {
				tree.Put("health/"+h, st)
			}
		}
		if goneHost != "" {
			dcsView[goneHost] = &nodestate.NodeState{}
		}
		if mh != nil {
			tree.Put("health/"+master, mh)
			dcsView[master] = mh
		} else {
			dcsView[master] = &nodestate.NodeState{}
		}
		for h := range dcsView { // a host without a health record reads as the zero NodeState
			if h != master && !wd.Nodes[h].Alive {
				dcsView[h] = &nodestate.NodeState{}
			}
		}
		var active []string
		tree.GetJSON("active_nodes", &active)
		var swNow *Switchover
		{
			var x Switchover
			if tree.GetJSON("switch", &x) {
				swNow = &x
			}
		}
		// the maintenance record as it is NOW (an earlier tick may have acknowledged it)
		maintNow := s.maint
		{
			var mr Maintenance
			if s.maint >= 1 && s.maint <= 5 {
				if tree.GetJSON("maintenance", &mr) {
					switch {
					case mr.Mode == LightMode && mr.ShouldLeave:
						maintNow = 3
					case mr.Mode == LightMode && mr.MySyncPaused:
						maintNow = 1
					case mr.Mode == LightMode:
						maintNow = 2
					case mr.MySyncPaused:
						maintNow = 5
					default:
						maintNow = 4
					}
				} else {
					maintNow = 0
				}
			}
			switch maintNow {
			case 1, 2, 3:
				maintMode = "light"
			case 4:
				maintMode = "full-unacked"
			case 5:
				maintMode = "full"
			case 0:
				maintMode = ""
			}
			shouldLeave = maintNow == 3
		}
		failedBefore := app.t.Get(NodeFailedAt, master)
		if s.masterKey == 1 {
			failedBefore = app.t.Get(NodeFailedAt, "ghost")
		}
		nowT := time.Now()
		wd.TakeLog()
		raced := false
		if s.race && swNow == nil && s.swFail == 0 {
			wd.OnDcs = func(client, op, path, res string) { // called with the world's lock held
				if op == "get" && path == "switch" && !raced {
					raced = true
					data, _ := json.Marshal(&Switchover{From: master, InitiatedBy: "op", InitiatedAt: time.Now(), Cause: CauseManual, MasterTransition: SwitchoverTransition})
					tree.Data["switch"] = data
				}
			}
		}
		panicked := ""
		var next appState
		func() {
			defer func() {
				if r := recover(); r != nil {
					panicked = fmt.Sprint(r) + " @ " + simSite(debug.Stack())
				}
			}()
			next = app.stateManager()
		}()
		wd.OnDcs = nil
		evs := wd.TakeLog()
		nowEnd := time.Now()
		_, emergeErr := os.Stat(cfg.Emergefile)
		_ = os.Remove(cfg.Emergefile)
		mk := master
		if s.masterKey == 1 {
			mk = "ghost"
		}
		obs := mgrObserve(evs, mk, maintMode, shouldLeave, emergeErr == nil, panicked, next, s.lock == 0 && s.masterKey == 0)
		fa := app.t.Get(NodeFailedAt, mk)
		if !fa.IsZero() {
			obs.FailedAt = fa.UnixNano()
		}
		in := map[string]any{
			"connected": s.lock != 2, "lock_held": s.lock == 0, "master": mk, "active_nodes": active,
			"cs": vCSList(view), "dcs": vCSList(dcsView), "now": nowT.UnixNano(), "now_end": nowEnd.UnixNano(), "bad_since": badSince.UnixNano(), "bad_since_zero": badSince.IsZero(),
			"master_alive": wd.Nodes[master].Alive,
			"maint": maintNow, "sw_read": s.sw, "last": s.last, "dcs_fault": s.dcsFault,
		}
		if active == nil {
			in["active_nodes"] = []string{}
		}
		if !failedBefore.IsZero() {
			in["failed_at"] = failedBefore.UnixNano()
		}
		if swNow != nil {
			swj := map[string]any{"from": swNow.From, "to": swNow.To, "cause_auto": swNow.Cause == CauseAuto,
				"failover_type": swNow.MasterTransition == FailoverTransition, "run_count": swNow.RunCount}
			if !swNow.InitiatedAt.IsZero() {
				swj["initiated_at"] = swNow.InitiatedAt.UnixNano()
			}
			in["sw"] = swj
		}
		if s.last >= 1 && s.last <= 6 && s.last != 5 {
			var ls Switchover
			if tree.GetJSON("last_switch", &ls) {
				lj := map[string]any{"result_nil": ls.Result == nil, "cause_auto": ls.Cause == CauseAuto}
				if ls.Result != nil {
					lj["finished_at"] = ls.Result.FinishedAt.UnixNano()
				}
				in["last_rec"] = lj
			}
		}
		// state of the world after the tick, for the C06 "succeeded means promoted" monitor
		var masterAfter string
		tree.GetJSON("master", &masterAfter)
		var lastAfter Switchover
		hasLast := tree.GetJSON("last_switch", &lastAfter)
		after := map[string]any{"master_key": masterAfter, "switch_present": tree.Has("switch"), "nodes": wd.Digest()}
		if hasLast && lastAfter.Result != nil {
			after["last_ok"] = lastAfter.Result.Ok
			after["last_to"] = lastAfter.To
			after["last_from"] = lastAfter.From
		}
		var swAfter Switchover
		if tree.GetJSON("switch", &swAfter) {
			after["run_count"] = swAfter.RunCount
			after["switch_initiated_by"] = swAfter.InitiatedBy
		}
		after["raced"] = raced
		// terminal events of this iteration: the operator's abort, a rejection record written by the daemon
		after["operator_aborted"] = abortedNow
		abortedNow = false
		for _, e := range evs {
			if e.Kind == "dcs" && (e.Op == "set" || e.Op == "create") && e.Host == "last_rejected_switch" && e.Res == "ok" {
				after["rejected_written"] = true
			}
		}
		out.Line(map[string]any{"k": "mgrtick", "prop": kind, "cfg": mgrCfgJSON(cfg), "in": in, "obs": obs, "tick": tick, "panic": panicked, "after": after,
			"maint_mode": maintMode, "sw_fail": s.swFail})
		if panicked != "" {
			break
		}
		// ground truth may have been changed by a switchover; later ticks keep using hosts[0] as "master"
		// only when the recorded master did not move
		if masterAfter != master && s.masterKey == 0 {
			break
		}
	}
	_ = swRec
}

func mgrGen(r *rand.Rand, focus string) mgrScn {
	s := mgrScn{n: 2 + r.Intn(3), semiSync: r.Intn(4) != 0, w: 1 + r.Intn(2), failover: r.Intn(6) != 0,
		delay: []time.Duration{0, 30 * time.Second}[r.Intn(2)], resetup: r.Intn(3) == 0, maxAtt: []int{0, 1, 2, 60}[r.Intn(4)]}
	ticks := 1 + r.Intn(3)
	for i := 0; i < ticks; i++ {
		h := 0
		if r.Intn(3) != 0 {
			h = 1 + r.Intn(6)
		}
		s.masterHealth = append(s.masterHealth, h)
		s.masterDown = append(s.masterDown, r.Intn(3) == 0 || ((h == 2 || h == 5) && r.Intn(2) == 0))
		s.sleeps = append(s.sleeps, []time.Duration{0, 29 * time.Second, 30 * time.Second, 31 * time.Second, 5 * time.Second}[r.Intn(5)])
	}
	for i := 0; i < 3; i++ {
		s.replica = append(s.replica, []int{0, 0, 0, 1, 2}[r.Intn(5)])
	}
	s.active = []int{0, 0, 0, 1, 2, 3, 4}[r.Intn(7)]
	s.last = []int{0, 0, 1, 2, 3, 4, 5, 6}[r.Intn(8)]
	s.lock = []int{0, 0, 0, 0, 0, 0, 0, 1, 2}[r.Intn(9)]
	s.recGone = []int{0, 0, 0, 1, 2}[r.Intn(5)]
	s.race = r.Intn(5) == 0
	switch focus {
	case "C05":
		s.maint = []int{0, 0, 0, 0, 1, 2, 6, 7}[r.Intn(8)]
		s.sw = []int{0, 0, 0, 0, 0, 2, 3, 4}[r.Intn(8)]
		s.dcsFault = []int{0, 0, 0, 3}[r.Intn(4)]
		s.masterKey = []int{0, 0, 0, 0, 0, 0, 0, 0, 0, 1}[r.Intn(10)]
	case "C06":
		s.maint = []int{0, 0, 0, 1}[r.Intn(4)]
		s.sw = []int{1, 1, 2, 3, 0, 5}[r.Intn(6)]
		s.swAge = r.Intn(4)
		s.runCount = r.Intn(3)
		s.dcsFault = []int{0, 0, 0, 2}[r.Intn(4)]
		s.swFail = []int{0, 0, 1, 2, 3, 4, 5}[r.Intn(7)]
		for i := range s.masterHealth {
			if r.Intn(3) != 0 {
				s.masterHealth[i], s.masterDown[i] = 0, false
			}
		}
	case "C09":
		s.maint = 1 + r.Intn(7)
		s.sw = []int{0, 0, 1, 2, 3}[r.Intn(5)]
		s.dcsFault = []int{0, 0, 1}[r.Intn(3)]
	}
	return s
}

func mgrSweep(t *testing.T, focus string, nQuick, nThorough int) {
	out := verifh.Open(t)
	defer out.Close()
	rnd := verifh.Rand()
	dir := t.TempDir()
	n := verifh.Pick(nQuick, nThorough)
	for base := 0; base < n; base += 100 {
		vBubble(t, func() {
			for i := base; i < min(base+100, n); i++ {
				mgrRun(t, out, mgrGen(rnd, focus), dir, focus)
			}
		})
	}
}

func TestVerifC05(t *testing.T) { mgrSweep(t, "C05", 2500, 40000) }
func TestVerifC06(t *testing.T) { mgrSweep(t, "C06", 1500, 25000) }
func TestVerifC09Mgr(t *testing.T) { mgrSweep(t, "C09", 1200, 20000) }
