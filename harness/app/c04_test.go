//go:build verif

package app

import (
	"slices"
	"fmt"
	"math/rand"
	"sort"
	"strconv"
	"testing"
	"time"

	nodestate "github.com/yandex/mysync/internal/app/node_state"
	"github.com/yandex/mysync/internal/verifh"
	"github.com/yandex/mysync/internal/verifh/fakes"
)

type c04Ev struct {
	Call string `json:"call"`
	Host string `json:"host"`
	Arg  string `json:"arg"`
	Ok   bool   `json:"ok"`
}

// c04trace maps the event log of updateActiveNodes to the call vocabulary of the Lean model.
func c04trace(evs []fakes.Event, master string) []c04Ev {
	var tr []c04Ev
	pings := 0
	add := func(c, h, a string, ok bool) { tr = append(tr, c04Ev{c, h, a, ok}) }
	for i := 0; i < len(evs); i++ {
		e := evs[i]
		ok := e.Res == "ok" || (len(e.Res) >= 3 && e.Res[:3] == "row")
		if e.Kind == "dcs" {
			switch {
			case e.Op == "set" && e.Host == "active_nodes":
				add("publish", "", e.Arg, e.Res == "ok")
			case e.Op == "create" && len(e.Host) > 19 && e.Host[:19] == "optimization_nodes/":
				add("optEnable", e.Host[19:], "", e.Res == "ok" || e.Res == "exists")
			}
			continue
		}
		if e.Kind != "sql" {
			continue
		}
		next := func(op string) (fakes.Event, bool) {
			for j := i + 1; j < len(evs); j++ {
				if evs[j].Kind == "sql" && evs[j].Host == e.Host {
					if evs[j].Op == op {
						return evs[j], true
					}
					return fakes.Event{}, false
				}
			}
			return fakes.Event{}, false
		}
		skipTo := func(op string) {
			for j := i + 1; j < len(evs); j++ {
				if evs[j].Kind == "sql" && evs[j].Host == e.Host && evs[j].Op == op {
					i = j
					return
				}
			}
		}
		switch e.Op {
		case "ping":
			if e.Host == master {
				pings++
				if pings == 1 {
					add("pingMaster", "", "", ok)
				} else {
					add("pingMasterShrink", "", "", ok)
				}
			}
		case "ss_disable":
			add("ssDisable", e.Host, "", ok)
		case "ss_set_slave":
			add("ssSetSlave", e.Host, "", ok)
		case "ss_set_master":
			add("ssSetMaster", e.Host, "", ok)
		case "ss_wait_count":
			add("ssWaitCount", e.Host, e.Arg, ok)
		case "stop_io":
			if !ok {
				add("restartIO", e.Host, "", false)
			} else if n, found := next("start_io"); found {
				add("restartIO", e.Host, "", n.Res == "ok")
				skipTo("start_io")
			} else {
				add("restartIO", e.Host, "", false)
			}
		case "stop_replica":
			if !ok {
				add("restartReplica", e.Host, "", false)
			} else if n, found := next("start_replica"); found {
				add("restartReplica", e.Host, "", n.Res == "ok")
				skipTo("start_replica")
			} else {
				add("restartReplica", e.Host, "", false)
			}
		case "set_flush":
			if !ok {
				add("setDefaultSettings", e.Host, "", false)
			} else if n, found := next("set_sync_binlog"); found {
				add("setDefaultSettings", e.Host, "", n.Res == "ok")
				skipTo("set_sync_binlog")
			} else {
				add("setDefaultSettings", e.Host, "", false)
			}
		default:
			if fakes.IsMutating(e.Op) {
				add("OTHER:"+e.Op, e.Host, e.Arg, ok)
			}
		}
	}
	if tr == nil {
		tr = []c04Ev{}
	}
	return tr
}

func c04one(t *testing.T, out *verifh.Out, r *rand.Rand, dir string) {
	n := 2 + r.Intn(4)
	w := 1 + r.Intn(3)
	semi := r.Intn(8) != 0
	wd, tree, hosts := vStdWorld(n, true, w)
	master := hosts[0]
	mgr := hosts[0]
	cfg := vConfig(mgr, dir)
	cfg.SemiSync, cfg.RplSemiSyncMasterWaitForSlaveCount = semi, w
	cfg.MasterFirstAdjustSSOrder = r.Intn(2) == 0
	cfg.InactivationDelay = 30 * time.Second
	cfg.SemiSyncEnableLag = 1000
	withCascade := r.Intn(4) == 0
	if withCascade {
		c := wd.AddNode("c1")
		c.ReadOnly, c.SuperReadOnly = true, true
		c.Executed = wd.Nodes[master].Executed
		c.Repl = &fakes.Repl{Source: hosts[1], IO: true, SQL: true}
		c.SemiSlave = r.Intn(2) == 0
		tree.Put("cascade_nodes/c1", map[string]string{"stream_from": hosts[1]})
	}
	app, _ := vNewApp(tree, cfg)
	defer vClose(app)
	if err := app.cluster.UpdateHostsInfo(); err != nil {
		t.Fatal(err)
	}
	um := wd.Nodes[master].UUID
	mn := wd.Nodes[master]
	mn.Executed = fmt.Sprintf("%s:1-100", um)
	mn.Binlogs = [][2]any{{"mysql-bin.000001", int64(5000)}, {"mysql-bin.000002", int64(3000)}}
	// the situation BEFORE: who is in the published list, who has the semi-sync flag, master's settings
	var old []string
	old = append(old, master)
	now := time.Now()
	recovery := []string{}
	dcsView := map[string]*nodestate.NodeState{}
	for _, h := range hosts[1:] {
		nd := wd.Nodes[h]
		inOld := r.Intn(3) != 0
		if inOld {
			old = append(old, h)
		}
		nd.SemiSlave = r.Intn(2) == 0
		if inOld && r.Intn(3) != 0 {
			nd.SemiSlave = true
		}
		nd.Repl.LogFile, nd.Repl.LogPos = "mysql-bin.000002", 3000
		healthPing := true
		switch r.Intn(12) {
		case 0: // dead, failing for a short time
			nd.Alive = false
			healthPing = false
			app.t.Set(NodeFailedAt, h, now.Add(-time.Duration(r.Intn(29))*time.Second))
		case 1: // dead for the delay or longer
			nd.Alive = false
			healthPing = false
			app.t.Set(NodeFailedAt, h, now.Add(-time.Duration(30+r.Intn(3))*time.Second))
		case 2: // dead, timer not started yet
			nd.Alive = false
			healthPing = r.Intn(2) == 0 // its own daemon may still hold the health lock
		case 3: // dubious
			nd.RefuseCode = 1040
		case 4: // replication stopped
			nd.Repl.IO = false
		case 5: // replication error
			nd.Repl.SQL, nd.Repl.SQLErrno = false, 1062
		case 6: // diverged
			nd.Executed = fmt.Sprintf("%s:1-90,99999999-0000-0000-0000-000000000099:1-3", um)
		case 7: // lost master: not a replica at all
			nd.Repl = nil
		case 8: // download lag, IO thread makes progress
			nd.Repl.LogFile, nd.Repl.LogPos = "mysql-bin.000001", 100
			nd.SemiSlave = false
			app.slaveReadPositions[h] = "mysql-bin.000001" + fmt.Sprintf("%019d", 50)
		case 9: // download lag, IO thread stuck
			nd.Repl.LogFile, nd.Repl.LogPos = "mysql-bin.000001", 100
			nd.SemiSlave = false
			app.slaveReadPositions[h] = "mysql-bin.000001" + fmt.Sprintf("%019d", 100)
		case 10: // marked for recovery
			recovery = append(recovery, h)
			tree.Put("recovery/"+h, nil)
		default: // healthy
			if r.Intn(4) == 0 {
				nd.Executed = fmt.Sprintf("%s:1-%d", um, 90+r.Intn(21)) // behind, equal, or ahead of the master's snapshot
			}
		}
		// the recovery mark is independent of the host's condition (a dead or dubious ex-master is marked, too)
		if r.Intn(8) == 0 && !slices.Contains(recovery, h) {
			recovery = append(recovery, h)
			tree.Put("recovery/"+h, nil)
		}
		dcsView[h] = &nodestate.NodeState{PingOk: healthPing}
	}
	if r.Intn(10) == 0 { // master itself marked for recovery
		recovery = append(recovery, master)
		tree.Put("recovery/"+master, nil)
	}
	sort.Strings(recovery)
	mn.SemiMaster = r.Intn(4) != 0
	mn.WaitCount = 1 + r.Intn(2)
	if r.Intn(2) == 0 { // consistent with the old list
		rq := min(len(old)/2, w)
		mn.SemiMaster = rq > 0
		if rq > 0 {
			mn.WaitCount = rq
		}
	}
	tree.Put("active_nodes", old)
	cs := app.getClusterStateFromDB()
	// a single failing call
	failHost, failOp := "", ""
	failNth := 0
	if r.Intn(3) == 0 {
		failHost = hosts[r.Intn(n)]
		ops := []string{"ss_set_slave", "ss_disable", "start_io", "stop_io", "set_flush", "ss_wait_count", "ss_set_master", "stop_replica", "ping"}
		failOp = ops[r.Intn(len(ops))]
		if failOp == "ping" {
			failHost = master
			failNth = 1 + r.Intn(2)
			wd.AddFault(master, "ping", failNth, "err:1105")
		} else {
			wd.AddFault(failHost, failOp, 0, "err:1105")
		}
	}
	dcsFail := ""
	switch r.Intn(12) {
	case 0:
		wd.AddFault("dcs:active_nodes", "set", 0, "err")
		dcsFail = "publish"
	case 1:
		wd.AddFault("dcs:recovery", "children", 0, "err")
		dcsFail = "recovery"
	}
	dcsView[master] = &nodestate.NodeState{PingOk: true, IsMaster: true}
	if withCascade {
		dcsView["c1"] = &nodestate.NodeState{PingOk: true}
	}
	timers := map[string]int64{}
	for _, h := range app.cluster.AllNodeHosts() {
		if tm := app.t.Get(NodeFailedAt, h); !tm.IsZero() {
			timers[h] = tm.UnixNano()
		}
	}
	readPos := map[string]string{}
	for k, v := range app.slaveReadPositions {
		readPos[k] = v
	}
	world0 := map[string]any{"master_enabled": mn.SemiMaster, "wait_count": mn.WaitCount, "published": old}
	var se []string
	reach := []string{}
	for _, h := range app.cluster.AllNodeHosts() {
		if h != master && wd.Nodes[h].SemiSlave {
			se = append(se, h)
		}
		if h != master && wd.Nodes[h].Alive && wd.Nodes[h].RefuseCode == 0 && !app.cluster.IsCascadeHost(h) {
			reach = append(reach, h)
		}
	}
	if se == nil {
		se = []string{}
	}
	world0["slave_enabled"] = se
	ahead := map[string]bool{}
	for _, h := range hosts[1:] {
		ahead[h] = !fakes.GtidContains(mn.Executed, wd.Nodes[h].Executed)
	}
	wd.TakeLog()
	panicked := ""
	var err error
	func() {
		defer func() {
			if x := recover(); x != nil {
				panicked = fmt.Sprint(x)
			}
		}()
		err = app.updateActiveNodes(cs, dcsView, old, master)
	}()
	evs := wd.TakeLog()
	nowEnd := time.Now()
	tr := c04trace(evs, master)
	timersAfter := map[string]int64{}
	for _, h := range app.cluster.AllNodeHosts() {
		if tm := app.t.Get(NodeFailedAt, h); !tm.IsZero() {
			timersAfter[h] = tm.UnixNano()
		}
	}
	var blj [][2]any
	for _, b := range mn.Binlogs {
		blj = append(blj, [2]any{b[0], b[1]})
	}
	var finalSE []string
	for _, h := range app.cluster.AllNodeHosts() {
		if h != master && wd.Nodes[h].SemiSlave {
			finalSE = append(finalSE, h)
		}
	}
	if finalSE == nil {
		finalSE = []string{}
	}
	var pub []string
	tree.GetJSON("active_nodes", &pub)
	out.Line(map[string]any{"k": "c04",
		"cfg": map[string]any{"semi_sync": semi, "wait_count": w, "delay": int64(cfg.InactivationDelay), "enable_lag": cfg.SemiSyncEnableLag, "master_first": cfg.MasterFirstAdjustSSOrder},
		"cs":  vCSList(cs), "dcs": vCSList(dcsView), "old": old, "master": master, "recovery": recovery, "mgtid": mn.Executed, "muuid": um,
		"timers": timers, "timers_after": timersAfter, "now": now.UnixNano(), "now_end": nowEnd.UnixNano(), "read_pos": readPos, "binlogs": blj,
		"world0": world0, "reachable": reach, "ahead": ahead, "trace": tr, "fail": map[string]any{"host": failHost, "op": failOp, "nth": failNth}, "dcs_fail": dcsFail,
		"err": err != nil, "panic": panicked,
		"final": map[string]any{"slave_enabled": finalSE, "master_enabled": mn.SemiMaster, "wait_count": mn.WaitCount, "published": pub}})
	_ = strconv.Itoa
}

func TestVerifC04(t *testing.T) {
	out := verifh.Open(t)
	defer out.Close()
	rnd := verifh.Rand()
	dir := t.TempDir()
	n := verifh.Pick(3000, 50000)
	for base := 0; base < n; base += 100 {
		vBubble(t, func() {
			for i := base; i < min(base+100, n); i++ {
				c04one(t, out, rnd, dir)
			}
		})
	}
}
