//go:build verif

package app

import (
	"sort"
	"fmt"
	"math/rand"
	"strings"
	"testing"
	"time"

	nodestate "github.com/yandex/mysync/internal/app/node_state"
	"github.com/yandex/mysync/internal/verifh"
	"github.com/yandex/mysync/internal/verifh/fakes"
)

// c10acts maps the statements that reached one host in one pass to the action vocabulary of Repair.lean
func c10acts(evs []fakes.Event, host string) []string {
	var mine []fakes.Event
	for _, e := range evs {
		if e.Kind == "sql" && e.Host == host && (fakes.IsMutating(e.Op)) {
			mine = append(mine, e)
		}
		if e.Kind == "dcs" && e.Op == "create" && e.Host == "recovery/"+host {
			mine = append(mine, fakes.Event{Kind: "dcs", Op: "setRecovery"})
		}
	}
	acts := []string{}
	for i := 0; i < len(mine); i++ {
		e := mine[i]
		op := func(k int) string {
			if i+k < len(mine) {
				return mine[i+k].Op
			}
			return ""
		}
		switch e.Op {
		case "setRecovery":
			acts = append(acts, "setRecovery")
		case "set_ro_super":
			acts = append(acts, "setReadOnly")
		case "set_offline":
			// ResetSlaveAlgorithm: offline, read-only, stop, reset, change, start
			if op(1) == "set_ro_super" && op(2) == "stop_replica" && op(3) == "reset_replica_all" {
				to := ""
				if op(4) == "change_source" {
					to = mine[i+4].Arg
				}
				acts = append(acts, "resetSlaveAlgorithm:"+to)
				i += 5
				if i >= len(mine) {
					i = len(mine) - 1
				}
			} else {
				acts = append(acts, "setOffline")
			}
		case "ss_disable":
			acts = append(acts, "semiSyncDisable")
		case "stop_replica":
			if op(1) == "change_source" {
				acts = append(acts, "changeMaster:"+mine[i+1].Arg)
				i++
				if op(1) == "start_replica" {
					i++
				}
			} else {
				acts = append(acts, "OTHER:stop_replica")
			}
		case "start_replica":
			acts = append(acts, "startSlave")
		case "set_online", "set_writable", "set_flush", "set_sync_binlog", "ss_set_master", "ss_set_slave", "ss_wait_count", "stop_io", "start_io":
			// master un-fencing / offline-mode policy / semi-sync maintenance are other properties' business
		default:
			acts = append(acts, "OTHER:"+e.Op)
		}
	}
	return acts
}

func c10one(t *testing.T, out *verifh.Out, r *rand.Rand, dir string) {
	n := 3 + r.Intn(2)
	semi := r.Intn(2) == 0
	wd, tree, hosts := vStdWorld(n, semi, 1)
	master := hosts[0]
	// the manager runs on the master or on a replica
	local := master
	if r.Intn(3) == 0 {
		local = hosts[1+r.Intn(n-1)]
	}
	cfg := vConfig(local, dir)
	cfg.SemiSync = semi
	// a family the product of the dimensions hits too rarely: a replica whose SQL error comes back on every start, aggressive
	// repair, and a statement of the reset method whose reply is lost every time (it takes effect, the method reports failure)
	focus := r.Intn(8) == 0
	cfg.ReplicationRepairAggressiveMode = r.Intn(2) == 0 || focus
	cfg.ReplicationRepairMaxAttempts = 1 + r.Intn(2)
	cfg.ReplicationRepairCooldown = 60 * time.Second
	cfg.WaitReplicationStartTimeout = 2 * time.Second
	app, _ := vNewApp(tree, cfg)
	defer vClose(app)
	// unregistered decoy servers: nothing may ever be sent to them
	decoys := []string{"decoy1", "decoy2"}
	for _, dname := range decoys {
		dn := wd.AddNode(dname)
		dn.Repl = &fakes.Repl{Source: master, IO: true, SQL: true}
	}
	if err := app.cluster.UpdateHostsInfo(); err != nil {
		t.Fatal(err)
	}
	startClears := r.Intn(2) == 0
	// initial per-node state from the product of the listed dimensions
	mn := wd.Nodes[master]
	mn.ReadOnly, mn.SuperReadOnly = r.Intn(4) == 0, false
	mn.Offline = r.Intn(4) == 0
	for _, h := range hosts[1:] {
		nd := wd.Nodes[h]
		nd.ClearErrOnStart = startClears
		nd.ReadOnly = r.Intn(3) != 0
		nd.SuperReadOnly = nd.ReadOnly
		nd.Offline = r.Intn(4) == 0
		nd.SemiSlave = r.Intn(2) == 0
		kindOf := r.Intn(9)
		if focus && h == hosts[1] {
			kindOf = 3
		}
		switch kindOf {
		case 0: // stale master
			nd.Repl = nil
		case 1: // replicating from another node / from a decoy
			nd.Repl.Source = []string{hosts[len(hosts)-1], "decoy1", h}[r.Intn(3)]
			if nd.Repl.Source == h {
				nd.Repl.Source = "decoy2"
			}
		case 2: // stopped
			nd.Repl.IO, nd.Repl.SQL = false, false
		case 3: // temporary error (half of the time one that comes back on every start: the offending row is still there)
			nd.Repl.SQL, nd.Repl.SQLErrno = false, 1062
			if r.Intn(2) == 0 || focus {
				nd.StickySQLErrno = 1062
			}
		case 4: // permanent error
			nd.Repl.IO, nd.Repl.IOErrno = false, 1236
		case 5: // wrong source and in error
			nd.Repl.Source = "decoy1"
			nd.Repl.SQL, nd.Repl.SQLErrno = false, 1062
		case 6: // unreachable
			nd.Alive = false
		case 8: // wrong source and permanently broken: it is still re-pointed (only the repair methods are pointless)
			nd.Repl.Source = "decoy1"
			nd.Repl.IO, nd.Repl.IOErrno = false, 1236
		}
	}
	fault := r.Intn(4) == 0
	passes := 2 + r.Intn(5)
	// a host is taken out of the registry between two passes (the operator removes it): from then on it is a server like
	// the decoys — the manager's own host included
	dropAt, dropHost := -1, ""
	if r.Intn(4) == 0 {
		dropAt = r.Intn(passes)
		dropHost = hosts[1+r.Intn(n-1)]
		if local != master && r.Intn(2) == 0 {
			dropHost = local
		}
	}
	resets := map[string][]int64{}
	starts := map[string][]int64{}
	stickyHost, stickyOp, stickyMode := "", "", "err:1105"
	if focus {
		fault = true
		stickyHost, stickyOp, stickyMode = hosts[1], []string{"change_source", "start_replica", "set_online"}[r.Intn(3)], "lost:1105"
		passes = 8 + r.Intn(4)
	} else if fault && r.Intn(3) == 0 {
		stickyMode = []string{"err:1105", "lost:1105"}[r.Intn(2)]
		stickyHost, stickyOp = hosts[1+r.Intn(n-1)], []string{"start_replica", "start_replica", "change_source"}[r.Intn(3)]
		passes = 6 + r.Intn(4)
	}
	for p := 0; p < passes; p++ {
		if p > 0 {
			time.Sleep([]time.Duration{0, 61 * time.Second, 61 * time.Second}[r.Intn(3)])
		}
		if p == dropAt {
			tree.Del("ha_nodes/" + dropHost)
			if err := app.cluster.UpdateHostsInfo(); err != nil {
				t.Fatal(err)
			}
			decoys = append(decoys, dropHost)
		}
		wd.ClearFaults()
		fh, fo, fkind := "", "", ""
		if stickyHost != "" {
			// a statement that fails on this server every time, for the whole run
			fh, fo = stickyHost, stickyOp
			wd.AddFault(fh, fo, 0, stickyMode)
		} else if fault && r.Intn(5) == 0 {
			// a coordination write fails while a host that claims to be master is being dealt with: the list update that
			// belongs to marking it for recovery
			// (only when exactly one host claims to be master: the failing write then belongs to that host, whatever the
			// order of the pass)
			var stale []string
			for _, h := range hosts[1:] {
				if wd.Nodes[h].Repl == nil && wd.Nodes[h].Alive {
					stale = append(stale, h)
				}
			}
			if len(stale) == 1 {
				fh, fo, fkind = stale[0], "dcs_set_active_nodes", "dcs"
				wd.AddFault("dcs:active_nodes", "set", 1, "err")
			}
		} else if fault && r.Intn(2) == 0 {
			fh = hosts[1+r.Intn(n-1)]
			fo = []string{"set_ro_super", "stop_replica", "change_source", "start_replica", "reset_replica_all", "set_offline"}[r.Intn(6)]
			wd.AddFault(fh, fo, 1, "err:1105")
		}
		cs := app.getClusterStateFromDB()
		dcsView := map[string]*nodestate.NodeState{}
		for h, st := range cs {
			cp := *st
			dcsView[h] = &cp
		}
		type rsj struct {
			LastAttempt int64 `json:"last_attempt"`
			Start       int   `json:"start"`
			Reset       int   `json:"reset"`
		}
		before := map[string]*rsj{}
		for _, h := range hosts[1:] {
			if s, ok := app.replRepairState[h]; ok {
				before[h] = &rsj{s.LastAttempt.UnixNano(), s.History[StartSlave], s.History[ResetSlave]}
			}
		}
		executedBefore := map[string]string{}
		for _, h := range hosts[1:] {
			executedBefore[h] = wd.Nodes[h].Executed
		}
		now := time.Now()
		// configuration resets the server has executed since this host's repair bookkeeping was (re)started
		for _, h := range hosts[1:] {
			if _, ok := app.replRepairState[h]; !ok {
				resets[h] = nil
				starts[h] = nil
			}
		}
		wd.TakeLog()
		panicked := ""
		func() {
			defer func() {
				if x := recover(); x != nil {
					panicked = fmt.Sprint(x)
					if len(panicked) > 100 {
						panicked = panicked[:100]
					}
				}
			}()
			app.repairOfflineMode(cs, master)
			app.repairCluster(cs, dcsView, master)
		}()
		evs := wd.TakeLog()
		after := map[string]*rsj{}
		for _, h := range hosts[1:] {
			if s, ok := app.replRepairState[h]; ok {
				after[h] = &rsj{s.LastAttempt.UnixNano(), s.History[StartSlave], s.History[ResetSlave]}
			}
		}
		perHost := map[string][]string{}
		rawOps := map[string][]string{}
		for _, h := range hosts[1:] {
			perHost[h] = c10acts(evs, h)
			rawOps[h] = []string{}
		}
		for _, e := range evs {
			if e.Kind == "sql" && fakes.IsMutating(e.Op) {
				if _, ok := rawOps[e.Host]; ok {
					x := e.Op
					if e.Arg != "" {
						x += ":" + e.Arg
					}
					rawOps[e.Host] = append(rawOps[e.Host], x)
				}
			}
		}
		for _, e := range evs {
			if e.Kind == "sql" && e.Op == "reset_replica_all" && (e.Res == "ok" || strings.HasPrefix(e.Res, "lost")) {
				resets[e.Host] = append(resets[e.Host], e.T)
			}
		}
		for _, h := range hosts[1:] {
			for _, a := range c10acts(evs, h) {
				if a == "startSlave" { // a lone START REPLICA = the start-method of the repair
					starts[h] = append(starts[h], now.UnixNano())
				}
			}
		}
		resetsNow, startsNow := map[string][]int64{}, map[string][]int64{}
		for h, v := range resets {
			resetsNow[h] = append([]int64{}, v...)
		}
		for h, v := range starts {
			startsNow[h] = append([]int64{}, v...)
		}
		decoyHits := []string{}
		selfSource := []string{}
		masterWrites := []string{}
		for _, e := range evs {
			if e.Kind == "sql" {
				for _, dn := range decoys {
					if e.Host == dn {
						decoyHits = append(decoyHits, e.Host+":"+e.Op)
					}
				}
				if e.Op == "change_source" && e.Arg == e.Host {
					selfSource = append(selfSource, e.Host)
				}
			}
			if e.Kind == "dcs" && (e.Op == "set" || e.Op == "create" || e.Op == "delete") && e.Host == "master" {
				masterWrites = append(masterWrites, e.Op)
			}
		}
		out.Line(map[string]any{"k": "c10pass", "cfg": map[string]any{"aggressive": cfg.ReplicationRepairAggressiveMode, "max_attempts": cfg.ReplicationRepairMaxAttempts, "cooldown": int64(cfg.ReplicationRepairCooldown)},
			"cs": vCSList(cs), "master": master, "hosts": hosts, "now": now.UnixNano(), "repair_before": before, "repair_after": after,
			"acts": perHost, "raw_ops": rawOps, "decoy_hits": decoyHits, "self_source": selfSource, "master_writes": masterWrites, "fault": map[string]string{"host": fh, "op": fo, "kind": fkind},
			"recovery_after": func() []string { var l []string; for k := range tree.Snapshot("recovery") { if strings.HasPrefix(k, "recovery/") { l = append(l, k[9:]) } }; sort.Strings(l); return l }(),
			"active_after": func() []string { var l []string; tree.GetJSON("active_nodes", &l); return l }(),
			"panic": panicked, "pass": p, "passes": passes, "start_clears": startClears, "faulty_run": fault, "nodes_after": wd.Digest(), "executed_before": executedBefore, "dropped": map[bool]string{true: dropHost, false: ""}[dropAt >= 0 && p >= dropAt], "local": local, "resets": resetsNow, "starts": startsNow})
		_ = strings.Join
		if panicked != "" {
			break
		}
	}
}

func TestVerifC10(t *testing.T) {
	out := verifh.Open(t)
	defer out.Close()
	rnd := verifh.Rand()
	dir := t.TempDir()
	n := verifh.Pick(800, 15000)
	for base := 0; base < n; base += 50 {
		vBubble(t, func() {
			for i := base; i < min(base+50, n); i++ {
				c10one(t, out, rnd, dir)
			}
		})
	}
}
