//go:build verif

package app

import (
	"sync/atomic"
	"encoding/json"
	"fmt"
	"os"
	"path/filepath"
	"sort"
	"testing"
	"testing/synctest"
	"time"

	"github.com/rs/zerolog"

	nodestate "github.com/yandex/mysync/internal/app/node_state"
	"github.com/yandex/mysync/internal/app/resetup"
	"github.com/yandex/mysync/internal/config"
	"github.com/yandex/mysync/internal/mysql"
	"github.com/yandex/mysync/internal/verifh"
	"github.com/yandex/mysync/internal/verifh/fakes"
)

type vNopCloser struct{}

func (vNopCloser) Close() error { return nil }

// vConfig: the project's defaults with in-memory plumbing and per-daemon files in dir.
func vConfig(host, dir string) *config.Config {
	c, err := config.DefaultConfig()
	if err != nil {
		panic(err)
	}
	c.Hostname = host
	c.DSNSettings = "?interpolateParams=true"
	c.MySQL.User, c.MySQL.Password = "u", "p"
	c.MySQL.ReplicationUser, c.MySQL.ReplicationPassword = "r", "rp"
	c.Emergefile = filepath.Join(dir, host+".emerge")
	c.Resetupfile = filepath.Join(dir, host+".resetup")
	c.Maintenancefile = filepath.Join(dir, host+".maintenance")
	c.InfoFile = filepath.Join(dir, host+".info")
	c.Lockfile = filepath.Join(dir, host+".lock")
	c.TestDiskUsageFile = filepath.Join(dir, host+".disk")
	c.TestFilesystemReadonlyFile = filepath.Join(dir, host+".fsro")
	c.MySQL.PidFile = filepath.Join(dir, host+".pid") // our own pid: a real start time, so no crash-recovery flag
	_ = os.WriteFile(c.MySQL.PidFile, []byte(fmt.Sprint(os.Getpid())), 0o644)
	c.MySQL.ErrorLog = filepath.Join(dir, host+".err")
	_ = os.WriteFile(c.TestDiskUsageFile, []byte("10"), 0o644)
	_ = os.WriteFile(c.TestFilesystemReadonlyFile, []byte("false"), 0o644)
	_ = os.WriteFile(c.MySQL.ErrorLog, []byte(""), 0o644)
	c.SetDynamicDefaults()
	return &c
}

// vNewApp builds an App the way NewApp + connectDCS + newDBCluster do, over the fakes.
func vNewApp(tree *fakes.Tree, cfg *config.Config) (*App, *fakes.DCS) {
	l := zerolog.Nop()
	logger := &l
	d := tree.Client(cfg.Hostname)
	cluster, err := mysql.NewCluster(cfg, logger, d)
	if err != nil {
		panic(err)
	}
	ext, _ := mysql.NewExternalReplication(cfg.ExternalReplicationType, logger, cfg.ExternalReplicationChannel)
	app := &App{
		state:               stateFirstRun,
		config:              cfg,
		logger:              logger,
		loggerCloser:        vNopCloser{},
		t:                   NewTimings(),
		dcs:                 d,
		cluster:             cluster,
		replRepairState:     make(map[string]*ReplicationRepairState),
		slaveReadPositions:  make(map[string]string),
		externalReplication: ext,
		switchHelper:        mysql.NewSwitchHelper(cfg),
		offlineModeFilter:   NewOfflineModeFilter(cfg, logger),
	}
	app.appDCS = NewAppDCS(d, cfg, logger)
	app.lagResetupper = resetup.NewLagResetupper(logger, app, cfg.ResetupHostLag.Seconds())
	app.initializeOptimizationModule()
	return app, d
}

// vClose closes every node handle (Cluster.Close skips cascade nodes and the local node when it is not registered).
func vClose(app *App) {
	for _, h := range app.cluster.AllNodeHosts() {
		if n := app.cluster.Get(h); n != nil {
			_ = n.Close()
		}
	}
	_ = app.cluster.Local().Close()
}

// vRegister writes ha_nodes / cascade_nodes entries.
func vRegister(tree *fakes.Tree, ha []string, cascade map[string]string) {
	tree.Put("ha_nodes", "")
	for _, h := range ha {
		tree.Put("ha_nodes/"+h, mysql.NodeConfiguration{Priority: 0})
	}
	if len(cascade) > 0 {
		tree.Put("cascade_nodes", "")
	}
	for h, from := range cascade {
		tree.Put("cascade_nodes/"+h, mysql.CascadeNodeConfiguration{StreamFrom: from})
	}
}

// vStdWorld: n HA nodes "h1".."hn", h1 master, the others replicating from it, all caught up.
func vStdWorld(n int, semiSync bool, w int) (*fakes.World, *fakes.Tree, []string) {
	wd := fakes.NewWorld()
	tree := fakes.NewTree(wd)
	var hosts []string
	for i := 1; i <= n; i++ {
		hosts = append(hosts, fmt.Sprintf("h%d", i))
	}
	for i, h := range hosts {
		nd := wd.AddNode(h)
		nd.Executed = fmt.Sprintf("%s:1-100", wd.Nodes[hosts[0]].UUID)
		if i == 0 {
			nd.ReadOnly, nd.SuperReadOnly = false, false
			if semiSync && n > 1 {
				nd.SemiMaster = true
				nd.WaitCount = min((n)/2, w)
				if nd.WaitCount == 0 {
					nd.SemiMaster = false
					nd.WaitCount = 1
				}
			}
		} else {
			nd.ReadOnly, nd.SuperReadOnly = true, true
			nd.Repl = &fakes.Repl{Source: hosts[0], IO: true, SQL: true}
			nd.SemiSlave = semiSync
		}
	}
	vRegister(tree, hosts, nil)
	tree.Put("master", hosts[0])
	tree.Put("active_nodes", hosts)
	// the life of a cluster leaves parents behind (ClearRecovery deletes only the child): every second world has them
	cnt := vWorldCount.Add(1)
	if cnt%2 == 0 {
		tree.Put("recovery", nil)
		tree.Put("health", nil)
	}
	// every third world has a cascade replica of the master: registered, but not an HA node — it is never counted,
	// frozen, listed or promoted
	if cnt%3 == 0 && n > 1 {
		nd := wd.AddNode(vCascadeHost)
		nd.Executed = wd.Nodes[hosts[0]].Executed
		nd.ReadOnly, nd.SuperReadOnly = true, true
		nd.Repl = &fakes.Repl{Source: hosts[0], IO: true, SQL: true}
		tree.Put("cascade_nodes", "")
		tree.Put("cascade_nodes/"+vCascadeHost, mysql.CascadeNodeConfiguration{StreamFrom: hosts[0]})
	}
	return wd, tree, hosts
}

var vWorldCount atomic.Int64

const vCascadeHost = "c9"

func vSortedKeys[V any](m map[string]V) []string {
	var k []string
	for x := range m {
		k = append(k, x)
	}
	sort.Strings(k)
	return k
}

func vJSON(v any) string {
	b, _ := json.Marshal(v)
	return string(b)
}

// vHealth publishes health/<host> records as the hosts' own health checkers would.
func vHealth(tree *fakes.Tree, cs map[string]*nodestate.NodeState) {
	for h, s := range cs {
		tree.Put("health/"+h, s)
	}
}

func vBubble(t *testing.T, f func()) {
	synctest.Test(t, func(t *testing.T) {
		f()
		// let every pending (virtual) time-out of hanging statements fire so that no goroutine outlives the bubble
		time.Sleep(30 * time.Minute)
		synctest.Wait()
	})
}

func TestVerifSmoke(t *testing.T) {
	out := verifh.Open(t)
	defer out.Close()
	dir := t.TempDir()
	vBubble(t, func() {
		wd, tree, hosts := vStdWorld(3, true, 1)
		app, _ := vNewApp(tree, vConfig(hosts[0], dir))
		defer vClose(app)
		if err := app.cluster.UpdateHostsInfo(); err != nil {
			t.Fatal(err)
		}
		t0 := time.Now()
		cs := app.getClusterStateFromDB()
		for _, h := range vSortedKeys(cs) {
			t.Logf("%s: %s", h, cs[h])
		}
		wd.Nodes["h3"].Hang = true
		cs = app.getClusterStateFromDB()
		t.Logf("h3 hanging: %s (virtual %v)", cs["h3"], time.Since(t0))
		t.Logf("events: %d", len(wd.TakeLog()))
	})
}

// vAddSourceInfo does to a hand-built cluster view what getNodeStatesInParallel does to a probed one: every replica's
// snapshot carries the MasterState of its source (in host order; the code does it in map order).
func vAddSourceInfo(cs map[string]*nodestate.NodeState) {
	for _, h := range vSortedKeys(cs) {
		if cs[h] == nil || cs[h].SlaveState == nil {
			continue
		}
		if src := cs[cs[h].SlaveState.MasterHost]; src != nil {
			cs[h].MasterState = src.MasterState
		}
	}
}
