//go:build verif

package app

import (
	"fmt"
	"math/rand"
	"os"
	"testing"
	"time"

	nodestate "github.com/yandex/mysync/internal/app/node_state"
	"github.com/yandex/mysync/internal/mysql"
	"github.com/yandex/mysync/internal/verifh"
	"github.com/yandex/mysync/internal/verifh/fakes"
)

type vTopo struct {
	Host string `json:"host"`
	From string `json:"from"`
}

func vTopoList(m map[string]mysql.CascadeNodeConfiguration) []vTopo {
	out := []vTopo{}
	for _, h := range vSortedKeys(m) {
		out = append(out, vTopo{h, m[h].StreamFrom})
	}
	return out
}

func c16bsf(app *App, self string, cs map[string]*nodestate.NodeState, master string, topo map[string]mysql.CascadeNodeConfiguration) (res string) {
	defer func() {
		if r := recover(); r != nil {
			res = "PANIC"
		}
	}()
	return app.findBestStreamFrom(app.cluster.Get(self), cs, master, topo)
}

func c16state(kind int, src string) *nodestate.NodeState {
	lag := func(f float64) *float64 { return &f }
	switch kind {
	case 0: // healthy running replica
		return &nodestate.NodeState{PingOk: true, SlaveState: &nodestate.SlaveState{MasterHost: src, ReplicationState: mysql.ReplicationRunning, ReplicationLag: lag(0)}}
	case 1: // unreachable
		return &nodestate.NodeState{PingOk: false}
	case 2: // offline
		return &nodestate.NodeState{PingOk: true, IsOffline: true, SlaveState: &nodestate.SlaveState{MasterHost: src, ReplicationState: mysql.ReplicationRunning, ReplicationLag: lag(0)}}
	case 3: // lagging beyond the reasonable lag (300 s)
		return &nodestate.NodeState{PingOk: true, SlaveState: &nodestate.SlaveState{MasterHost: src, ReplicationState: mysql.ReplicationRunning, ReplicationLag: lag(300)}}
	case 4: // replication stopped
		return &nodestate.NodeState{PingOk: true, SlaveState: &nodestate.SlaveState{MasterHost: src, ReplicationState: mysql.ReplicationStopped}}
	case 5: // just below the reasonable lag
		return &nodestate.NodeState{PingOk: true, SlaveState: &nodestate.SlaveState{MasterHost: src, ReplicationState: mysql.ReplicationRunning, ReplicationLag: lag(299)}}
	}
	return &nodestate.NodeState{PingOk: true, IsMaster: true, MasterState: &nodestate.MasterState{}}
}

func TestVerifC16BSF(t *testing.T) {
	out := verifh.Open(t)
	defer out.Close()
	rnd := verifh.Rand()
	dir := t.TempDir()
	vBubble(t, func() {
		wd := fakes.NewWorld()
		tree := fakes.NewTree(wd)
		for _, h := range []string{"m", "r1", "c1", "c2", "c3"} {
			wd.AddNode(h)
		}
		vRegister(tree, []string{"m", "r1"}, map[string]string{"c1": "m", "c2": "m", "c3": "m"})
		cfg := vConfig("m", dir)
		cfg.StreamFromReasonableLag = 300 * time.Second
		app, _ := vNewApp(tree, cfg)
		defer vClose(app)
		if err := app.cluster.UpdateHostsInfo(); err != nil {
			t.Fatal(err)
		}
		vals := []string{"", "m", "r1", "c1", "c2", "c3", "ghost"}
		casc := []string{"c1", "c2", "c3"}
		emit := func(self string, cs map[string]*nodestate.NodeState, topo map[string]mysql.CascadeNodeConfiguration) {
			res := c16bsf(app, self, cs, "m", topo)
			out.Line(map[string]any{"k": "c16bsf", "self": self, "cs": vCSList(cs), "master": "m", "topo": vTopoList(topo), "reasonable": 300, "res": res})
		}
		// exhaustive: all stream_from maps over three cascade hosts x self x health patterns
		nHealth := verifh.Pick(12, 60)
		for a := range vals {
			for b := range vals {
				for c := range vals {
					topo := map[string]mysql.CascadeNodeConfiguration{}
					for i, v := range []int{a, b, c} {
						// value index 0 with probability: also model "absent from the topology map"
						topo[casc[i]] = mysql.CascadeNodeConfiguration{StreamFrom: vals[v]}
					}
					for _, self := range casc {
						for k := 0; k < nHealth; k++ {
							cs := map[string]*nodestate.NodeState{"m": c16state(9, "")}
							cs["r1"] = c16state(rnd.Intn(6), "m")
							for _, h := range casc {
								src := vals[1+rnd.Intn(5)]
								cs[h] = c16state(rnd.Intn(6), src)
							}
							if k%3 == 0 { // self already streams from its configured source
								cs[self] = c16state(0, topo[self].StreamFrom)
							}
							emit(self, cs, topo)
						}
					}
				}
			}
		}
		// hosts missing from the topology map / from the cluster state (malformed stream)
		for i := 0; i < verifh.Pick(2000, 20000); i++ {
			topo := map[string]mysql.CascadeNodeConfiguration{}
			for _, h := range casc {
				if rnd.Intn(4) != 0 {
					topo[h] = mysql.CascadeNodeConfiguration{StreamFrom: vals[rnd.Intn(len(vals))]}
				}
			}
			cs := map[string]*nodestate.NodeState{"m": c16state(9, "")}
			for _, h := range []string{"r1", "c1", "c2", "c3"} {
				if rnd.Intn(6) != 0 {
					cs[h] = c16state(rnd.Intn(6), vals[1+rnd.Intn(5)])
				}
			}
			self := casc[rnd.Intn(3)]
			if cs[self] == nil {
				cs[self] = c16state(rnd.Intn(6), "m")
			}
			emit(self, cs, topo)
		}
	})
}

// ---- repairCascadeNode ---------------------------------------------------------------------------

func c16acts(evs []fakes.Event, host string) []string {
	acts := []string{}
	for i := 0; i < len(evs); i++ {
		e := evs[i]
		if e.Kind != "sql" {
			continue
		}
		if e.Host != host {
			if e.Op == "uuid" {
				acts = append(acts, "readUuid")
			} else if fakes.IsMutating(e.Op) {
				acts = append(acts, "FOREIGN:"+e.Host+":"+e.Op)
			}
			continue
		}
		switch e.Op {
		case "stop_replica":
			// performChangeMaster = stop, change, start, polls
			j := i + 1
			for j < len(evs) && !(evs[j].Kind == "sql" && evs[j].Host == host) {
				j++
			}
			if j < len(evs) && evs[j].Op == "change_source" {
				acts = append(acts, "changeMaster:"+evs[j].Arg)
				i = j
				// swallow the start and the status polls that belong to it
				k := i + 1
				if k < len(evs) && evs[k].Kind == "sql" && evs[k].Host == host && evs[k].Op == "start_replica" && evs[j].Res == "ok" {
					i = k
					for i+1 < len(evs) && evs[i+1].Kind == "sql" && evs[i+1].Host == host && evs[i+1].Op == "replica_status" {
						i++
					}
				}
			} else {
				acts = append(acts, "stopSlave")
			}
		case "start_replica":
			acts = append(acts, "startSlave")
		case "replica_status":
			acts = append(acts, "readFresh")
		default:
			if fakes.IsMutating(e.Op) {
				acts = append(acts, "OTHER:"+e.Op)
			}
		}
	}
	return acts
}

func TestVerifC16Repair(t *testing.T) {
	out := verifh.Open(t)
	defer out.Close()
	rnd := verifh.Rand()
	dir := t.TempDir()
	n := verifh.Pick(2500, 40000)
	for base := 0; base < n; base += 250 {
		vBubble(t, func() {
			for it := base; it < min(base+250, n); it++ {
				c16repairOne(t, out, rnd, dir)
			}
		})
	}
}

func c16repairOne(t *testing.T, out *verifh.Out, rnd *rand.Rand, dir string) {
	wd := fakes.NewWorld()
	tree := fakes.NewTree(wd)
	hosts := []string{"m", "r1", "c1", "c2"}
	for _, h := range hosts {
		wd.AddNode(h)
	}
	um := wd.Nodes["m"].UUID
	foreign := "99999999-0000-0000-0000-000000000099"
	vals := []string{"m", "r1", "c2", "c1", ""}
	topo := map[string]mysql.CascadeNodeConfiguration{"c1": {StreamFrom: vals[rnd.Intn(len(vals))]}, "c2": {StreamFrom: vals[rnd.Intn(3)]}}
	vRegister(tree, []string{"m", "r1"}, map[string]string{"c1": topo["c1"].StreamFrom, "c2": topo["c2"].StreamFrom})
	cfg := vConfig("m", dir)
	cfg.StreamFromReasonableLag = 300 * time.Second
	cfg.WaitReplicationStartTimeout = 3 * time.Second
	_ = os.Remove(cfg.Emergefile)
	app, _ := vNewApp(tree, cfg)
	defer vClose(app)
	if err := app.cluster.UpdateHostsInfo(); err != nil {
		t.Fatal(err)
	}
	// GTID relation between the cascade replica (fresh read) and everybody else's snapshot
	gt := func(n int) string { return fmt.Sprintf("%s:1-%d", um, n) }
	mine := []string{gt(50), gt(100), gt(120), gt(50) + "," + foreign + ":1-3"}[rnd.Intn(4)]
	cs := map[string]*nodestate.NodeState{}
	cs["m"] = &nodestate.NodeState{PingOk: true, IsMaster: true, MasterState: &nodestate.MasterState{ExecutedGtidSet: gt(100)}}
	wd.Nodes["m"].Executed = gt(100)
	for _, h := range []string{"r1", "c2"} {
		st := c16state(rnd.Intn(6), "m")
		if st.SlaveState != nil {
			st.SlaveState.ExecutedGtidSet = []string{gt(100), gt(90), gt(100) + "," + foreign + ":1-5"}[rnd.Intn(3)]
		} else if rnd.Intn(3) == 0 {
			st = &nodestate.NodeState{PingOk: true} // reachable but neither master nor slave state (error during getNodeState)
		}
		cs[h] = st
		wd.Nodes[h].Executed = gt(100)
		wd.Nodes[h].Repl = &fakes.Repl{Source: "m", IO: true, SQL: true}
	}
	// the cascade replica under repair
	c := wd.Nodes["c1"]
	c.InstantRepl = false
	c.Executed = mine
	c.ReadOnly, c.SuperReadOnly = true, true
	upstream := []string{"m", "r1", "c2"}[rnd.Intn(3)]
	kind := rnd.Intn(5) // 0 running, 1 stopped, 2 error(temp), 3 error(permanent), 4 no slave state
	st := &nodestate.NodeState{PingOk: true, IsCascade: true, IsReadOnly: true}
	if kind != 4 {
		c.Repl = &fakes.Repl{Source: upstream, IO: kind == 0, SQL: kind == 0}
		ss := &nodestate.SlaveState{MasterHost: upstream, ExecutedGtidSet: gt(40)}
		switch kind {
		case 0:
			ss.ReplicationState = mysql.ReplicationRunning
		case 1:
			ss.ReplicationState = mysql.ReplicationStopped
		case 2:
			ss.ReplicationState, ss.LastIOErrno = mysql.ReplicationError, 2003
			c.Repl.IOErrno = 2003
		case 3:
			ss.ReplicationState, ss.LastIOErrno = mysql.ReplicationError, 1236
			c.Repl.IOErrno = 1236
		}
		st.SlaveState = ss
	}
	cs["c1"] = st
	if rnd.Intn(4) != 0 { // as the probed view: replicas carry their source's master state
		vAddSourceInfo(cs)
	}
	timerZero := rnd.Intn(2) == 0
	if !timerZero {
		app.t.Set(StreamFromFailedAt, "c1", time.Now().Add(-time.Minute))
	}
	// faults
	stopOK, changeOK, uuidOK := true, true, true
	fresh := "gtid"
	switch rnd.Intn(8) {
	case 0:
		if kind == 0 {
			wd.AddFault("c1", "stop_replica", 1, "err:1105")
			stopOK = false
		}
	case 1:
		wd.AddFault("c1", "change_source", 0, "err:1105")
		changeOK = false
	case 2:
		wd.AddFault("", "uuid", 0, "err:1105")
		uuidOK = false
	case 3:
		wd.AddFault("c1", "replica_status", 1, "err:1105")
		fresh = "err"
	}
	// the topology as the daemon reads it: through the real fetch; in a sixth of the runs one record cannot be read — then
	// nothing may be repaired on a partial picture (repairSlaveNode returns when the fetch fails)
	topoReadFails := rnd.Intn(6) == 0
	if topoReadFails {
		wd.AddFault("dcs:cascade_nodes/"+[]string{"c1", "c2"}[rnd.Intn(2)], "get", 0, "err")
	}
	fetched, fetchErr := app.fetchCascadeNodeConfigurations()
	cand := c16bsf(app, "c1", cs, "m", topo)
	var candUUID string
	if n := wd.Nodes[cand]; n != nil {
		candUUID = n.UUID
	}
	wd.TakeLog()
	panicked := ""
	func() {
		defer func() {
			if r := recover(); r != nil {
				panicked = fmt.Sprint(r)
				if len(panicked) > 120 {
					panicked = panicked[:120]
				}
			}
		}()
		if fetchErr == nil { // as repairSlaveNode does
			app.repairCascadeNode(app.cluster.Get("c1"), cs, "m", fetched)
		}
	}()
	evs := wd.TakeLog()
	acts := c16acts(evs, "c1")
	if _, err := os.Stat(cfg.Emergefile); err == nil {
		acts = append(acts, "writeEmerge")
		_ = os.Remove(cfg.Emergefile)
	}
	freshVal := fresh
	if fresh == "gtid" {
		freshVal = "gtid:" + mine
	}
	out.Line(map[string]any{"k": "c16repair", "host": "c1", "state": st, "cs": vCSList(cs), "topo": vTopoList(topo), "master": "m", "reasonable": 300,
		"in": map[string]any{"stream_from": topo["c1"].StreamFrom, "timer_zero": timerZero, "stop_ok": stopOK, "fresh": freshVal,
			"uuid_ok": uuidOK, "uuid": candUUID, "change_ok": changeOK},
		"topo_read_fails": topoReadFails, "cand": cand, "acts": acts, "timer_zero_after": app.t.Get(StreamFromFailedAt, "c1").IsZero(), "panic": panicked})
}
