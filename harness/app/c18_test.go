//go:build verif

package app

import (
	"math/rand"
	"testing"

	nodestate "github.com/yandex/mysync/internal/app/node_state"
	"github.com/yandex/mysync/internal/mysql"
	"github.com/yandex/mysync/internal/verifh"
	"github.com/yandex/mysync/internal/verifh/fakes"
)

type vHostState struct {
	Host  string               `json:"host"`
	State *nodestate.NodeState `json:"state"`
}

func vCSList(m map[string]*nodestate.NodeState) []vHostState {
	out := []vHostState{}
	for _, h := range vSortedKeys(m) {
		out = append(out, vHostState{h, m[h]})
	}
	return out
}

type c18cell struct {
	masterDisk  int // -1 = no report
	masterFlag  bool
	repl        []c18repl
	waitCount   int
	masterSSNil bool
	mode        int // 0 rw, 1 ro+super, 2 ro only
	keepSuper   bool
	semiSync    bool
	fault       bool
}
type c18repl struct {
	disk    int // -1 none
	ssSlave bool
	running bool
	ssNil   bool
}

func c18run(t *testing.T, out *verifh.Out, cells []c18cell, dir string) {
	vBubble(t, func() {
		wd, tree, hosts := vStdWorld(4, true, 1)
		cfg := vConfig(hosts[0], dir)
		cfg.CriticalDiskUsage, cfg.NotCriticalDiskUsage = 95, 90
		app, _ := vNewApp(tree, cfg)
		defer vClose(app)
		if err := app.cluster.UpdateHostsInfo(); err != nil {
			t.Fatal(err)
		}
		m := wd.Nodes["h1"]
		for _, c := range cells {
			cfg.KeepSuperWritableOnCriticalDiskUsage = c.keepSuper
			cfg.SemiSync = c.semiSync
			m.ReadOnly, m.SuperReadOnly = c.mode != 0, c.mode == 1
			m.WaitCount = c.waitCount
			wd.ClearFaults()
			if c.fault {
				wd.AddFault("h1", "set_ro_super", 0, "err:1105")
				wd.AddFault("h1", "set_ro_nosuper", 0, "err:1105")
				wd.AddFault("h1", "set_writable", 0, "err:1105")
			}
			tree.Del("low_space")
			ms := &nodestate.NodeState{PingOk: true, IsMaster: true, IsReadOnly: m.ReadOnly, IsSuperReadOnly: m.SuperReadOnly}
			if !c.masterSSNil {
				ms.SemiSyncState = &nodestate.SemiSyncState{MasterEnabled: true, WaitSlaveCount: c.waitCount}
			}
			dcsm := map[string]*nodestate.NodeState{}
			md := &nodestate.NodeState{PingOk: true, IsMaster: c.masterFlag}
			if c.masterDisk >= 0 {
				md.DiskState = &nodestate.DiskState{Used: uint64(c.masterDisk), Total: 1000}
			}
			dcsm["h1"] = md
			for i, r := range c.repl {
				ns := &nodestate.NodeState{PingOk: true}
				if r.disk >= 0 {
					ns.DiskState = &nodestate.DiskState{Used: uint64(r.disk), Total: 1000}
				}
				if !r.ssNil {
					ns.SemiSyncState = &nodestate.SemiSyncState{SlaveEnabled: r.ssSlave}
				}
				st := mysql.ReplicationRunning
				if !r.running {
					st = mysql.ReplicationStopped
				}
				ns.SlaveState = &nodestate.SlaveState{MasterHost: "h1", ReplicationState: st}
				dcsm[hosts[i+1]] = ns
			}
			wd.TakeLog()
			app.repairReadOnlyOnMaster(app.cluster.Get("h1"), ms, dcsm)
			var stmts []string
			low := ""
			for _, e := range wd.TakeLog() {
				if e.Kind == "sql" && fakes.IsMutating(e.Op) {
					stmts = append(stmts, e.Host+":"+e.Op+":"+e.Res)
				}
				if e.Kind == "dcs" && e.Host == "low_space" && (e.Op == "set" || e.Op == "create") {
					low = e.Arg
				}
			}
			if stmts == nil {
				stmts = []string{}
			}
			out.Line(map[string]any{"k": "c18", "master": "h1", "ms": ms, "dcs": vCSList(dcsm),
				"cfg":   map[string]any{"semi_sync": c.semiSync, "keep_super": c.keepSuper, "crit": 95, "not_crit": 90},
				"fault": c.fault, "stmts": stmts, "low_space": low,
				"after": map[string]bool{"ro": m.ReadOnly, "sro": m.SuperReadOnly}})
		}
	})
}

func TestVerifC18(t *testing.T) {
	out := verifh.Open(t)
	defer out.Close()
	rnd := verifh.Rand()
	dir := t.TempDir()
	mdisks := []int{-1, 800, 900, 906, 910, 940, 949, 950, 956, 960} // permille of the disk: also strictly between two whole percents
	rdisks := []int{-1, 800, 900, 904, 920, 950, 953, 970}
	var cells []c18cell
	// exhaustive reduced grid: 0..1 (thorough 0..2) replicas
	maxR := verifh.Pick(1, 2)
	var rec func(cur []c18repl)
	var replSets [][]c18repl
	rec = func(cur []c18repl) {
		replSets = append(replSets, append([]c18repl{}, cur...))
		if len(cur) == maxR {
			return
		}
		for _, d := range rdisks {
			for _, counted := range []bool{true, false} {
				rec(append(cur, c18repl{disk: d, ssSlave: counted, running: true}))
			}
		}
	}
	rec(nil)
	for _, md := range mdisks {
		for _, rs := range replSets {
			for wc := 1; wc <= 2; wc++ {
				for mode := 0; mode < 3; mode++ {
					for _, ks := range []bool{false, true} {
						cells = append(cells, c18cell{masterDisk: md, masterFlag: true, repl: rs, waitCount: wc, mode: mode, keepSuper: ks, semiSync: true})
					}
				}
			}
		}
	}
	// random beyond: up to 3 replicas, all switches
	pick := func(r *rand.Rand, xs []int) int { return xs[r.Intn(len(xs))] }
	for i := 0; i < verifh.Pick(3000, 40000); i++ {
		c := c18cell{masterDisk: pick(rnd, mdisks), masterFlag: rnd.Intn(10) != 0, waitCount: 1 + rnd.Intn(2), masterSSNil: rnd.Intn(8) == 0,
			mode: rnd.Intn(3), keepSuper: rnd.Intn(2) == 0, semiSync: rnd.Intn(5) != 0, fault: rnd.Intn(6) == 0}
		for j := 0; j < rnd.Intn(4); j++ {
			c.repl = append(c.repl, c18repl{disk: pick(rnd, rdisks), ssSlave: rnd.Intn(4) != 0, running: rnd.Intn(4) != 0, ssNil: rnd.Intn(10) == 0})
		}
		cells = append(cells, c)
	}
	for i := 0; i < len(cells); i += 400 {
		c18run(t, out, cells[i:min(i+400, len(cells))], dir)
	}
}
