//go:build verif

package app

import (
	"fmt"
	"math/rand"
	"os"
	"testing"
	"time"

	"github.com/yandex/mysync/internal/verifh"
	"github.com/yandex/mysync/internal/verifh/fakes"
)

func c11one(t *testing.T, out *verifh.Out, r *rand.Rand, dir string) {
	wd, tree, hosts := vStdWorld(3, true, 1)
	local := hosts[1+r.Intn(2)]
	cfg := vConfig(local, dir)
	_ = os.Remove(cfg.Resetupfile)
	app, _ := vNewApp(tree, cfg)
	defer vClose(app)
	um := wd.Nodes[hosts[0]].UUID
	ln := wd.Nodes[local]
	mn := wd.Nodes[hosts[0]]
	mn.Executed = fmt.Sprintf("%s:1-100", um)
	marked := r.Intn(6) != 0
	if marked {
		tree.Put("recovery/"+local, nil)
	}
	resetupFile := r.Intn(8) == 0
	if resetupFile {
		_ = os.WriteFile(cfg.Resetupfile, []byte{}, 0o644)
	}
	statusKind := r.Intn(6) // 0-1 replica running, 2 stopped, 3 error, 4 not a replica (still master), 5 status read fails
	rel := r.Intn(4)        // 0 behind 1 equal 2 ahead 3 diverged
	switch rel {
	case 0:
		ln.Executed = fmt.Sprintf("%s:1-90", um)
	case 1:
		ln.Executed = fmt.Sprintf("%s:1-100", um)
	case 2:
		ln.Executed = fmt.Sprintf("%s:1-105", um)
	case 3:
		ln.Executed = fmt.Sprintf("%s:1-90,99999999-0000-0000-0000-000000000099:1-2", um)
	}
	ln.InstantRepl = false
	switch statusKind {
	case 2:
		ln.Repl.IO, ln.Repl.SQL = false, false
	case 3: // replication in error: by the SQL thread, or by the IO thread alone (e.g. the new master purged what it needs)
		if r.Intn(2) == 0 {
			ln.Repl.SQL, ln.Repl.SQLErrno = false, 1062
		} else {
			ln.Repl.IO, ln.Repl.IOErrno = false, []int{1236, 2003}[r.Intn(2)]
		}
	case 4:
		ln.Repl = nil
	case 5:
		wd.AddFault(local, "replica_status", 1, "err:1105")
	}
	ro := r.Intn(4) != 0
	ln.ReadOnly, ln.SuperReadOnly = ro, ro
	roErr := r.Intn(12) == 0
	if roErr {
		wd.AddFault(local, "is_readonly", 0, "err:1105")
	}
	masterKind := r.Intn(8) // 0-4 other host, 5 the local host, 6 unregistered, 7 read fails / absent
	masterKey := hosts[0]
	switch masterKind {
	case 5:
		masterKey = local
		tree.Put("master", local)
	case 6:
		masterKey = "ghost"
		tree.Put("master", "ghost")
	case 7:
		tree.Del("master")
		masterKey = ""
	}
	mgErr := r.Intn(12) == 0
	if mgErr && masterKey != "" && masterKey != "ghost" {
		wd.AddFault(masterKey, "gtid_executed", 0, "err:1105")
	}
	stuckKind := r.Intn(5) // 0-2 no, 3 yes, 4 read fails
	if stuckKind == 3 {
		ln.WaitingAck = true
	} else if stuckKind == 4 {
		wd.AddFault(local, "waiting_ack", 0, "err:1105")
	}
	timerAge := []time.Duration{0, 0, 30 * time.Second, 59 * time.Second, 60 * time.Second, 61 * time.Second}[r.Intn(6)]
	if timerAge > 0 {
		app.t.Set(MasterStuckAt, local, time.Now().Add(-timerAge))
	}
	clearFail := r.Intn(10) == 0
	if clearFail {
		wd.AddFault("dcs:recovery/"+local, "delete", 0, "err")
	}
	timerBefore := app.t.Get(MasterStuckAt, local)
	now := time.Now()
	wd.TakeLog()
	panicked := ""
	func() {
		defer func() {
			if x := recover(); x != nil {
				panicked = fmt.Sprint(x)
				if len(panicked) > 100 {
					panicked = panicked[:100]
				}
			}
		}()
		app.checkRecovery()
	}()
	evs := wd.TakeLog()
	acts := []string{}
	mutating := []string{}
	for _, e := range evs {
		if e.Kind == "sql" && fakes.IsMutating(e.Op) {
			mutating = append(mutating, e.Host+":"+e.Op)
		}
		if e.Kind == "dcs" && e.Op == "delete" && e.Host == "recovery/"+local {
			acts = append(acts, "clearRecovery:"+fmt.Sprint(e.Res == "ok"))
		} else if e.Kind == "dcs" && (e.Op == "delete" || e.Op == "set" || e.Op == "create") {
			mutating = append(mutating, "dcs:"+e.Op+":"+e.Host)
		}
	}
	if !resetupFile {
		if _, err := os.Stat(cfg.Resetupfile); err == nil {
			acts = append([]string{"writeResetup"}, acts...)
		}
	}
	_ = os.Remove(cfg.Resetupfile)
	ta := app.t.Get(MasterStuckAt, local)
	in := map[string]any{"marked": marked, "resetup_file": resetupFile, "status_kind": statusKind, "rel": rel, "executed": ln.Executed,
		"master": masterKey, "master_kind": masterKind, "mgtid": mn.Executed, "mg_err": mgErr, "stuck_kind": stuckKind, "now": now.UnixNano(),
		"local": local, "ro": ro, "ro_err": roErr, "clear_fail": clearFail}
	if masterKey == local {
		in["mgtid"] = ln.Executed
	}
	if !timerBefore.IsZero() {
		in["timer"] = timerBefore.UnixNano()
	}
	out.Line(map[string]any{"k": "c11", "in": in, "acts": acts, "mutating": mutating, "timer_zero_after": ta.IsZero(), "panic": panicked,
		"mark_after": tree.Has("recovery/" + local)})
}

func TestVerifC11(t *testing.T) {
	out := verifh.Open(t)
	defer out.Close()
	rnd := verifh.Rand()
	dir := t.TempDir()
	n := verifh.Pick(4000, 60000)
	for base := 0; base < n; base += 200 {
		vBubble(t, func() {
			for i := base; i < min(base+200, n); i++ {
				c11one(t, out, rnd, dir)
			}
		})
	}
}
