//go:build verif

package app

import (
	"sync"
	"github.com/yandex/mysync/internal/app/optimization"
	"testing/synctest"
	"fmt"
	"math/rand"
	"os"
	"sort"
	"strings"
	"testing"
	"time"

	"github.com/yandex/mysync/internal/mysql"
	"github.com/yandex/mysync/internal/verifh"
	"github.com/yandex/mysync/internal/verifh/fakes"
)

type c01Step struct {
	S    string `json:"s"`
	Host string `json:"host,omitempty"`
	To   string `json:"to,omitempty"`
	Ok   bool   `json:"ok"`
	N    int    `json:"n,omitempty"`
}

type c01Snap struct {
	At       string             `json:"at"` // "lock1" | "writable:<host>"
	Nodes    []fakes.NodeDigest `json:"nodes"`
	Registry []string           `json:"opt_registry"` // children of optimization_nodes at that moment
}

// c01observe turns the event log of one performSwitchover call into the step vocabulary of
// MysyncModel/App/Switchover.lean (only steps that are visible from outside).
func c01observe(evs []fakes.Event, hosts []string) []c01Step {
	steps := []c01Step{}
	acq := 0
	// per-host scan state
	type hs struct {
		roSeen, roOk      bool
		ioSeen            bool
		lastStopReplica   int
	}
	st := map[string]*hs{}
	for _, h := range hosts {
		st[h] = &hs{lastStopReplica: -1}
	}
	phase := 1 // 1 freeze, 2 after lock1, 3 after lock2
	ok := func(e fakes.Event) bool { return e.Res == "ok" || strings.HasPrefix(e.Res, "row") || e.Res == "norow" }
	// freeze results are summarised when the first lock check (or the end) is reached
	var ioSteps []c01Step
	flushFreeze := func() {
		defer func() { steps = append(steps, ioSteps...); ioSteps = nil }()
		var hs_ []string
		for h := range st {
			hs_ = append(hs_, h)
		}
		sort.Strings(hs_)
		for _, h := range hs_ {
			if st[h].roSeen {
				steps = append(steps, c01Step{S: "freezeRO", Host: h, Ok: st[h].roOk})
			}
		}
	}
	flushed := false
	for i := 0; i < len(evs); i++ {
		e := evs[i]
		if e.Kind == "dcs" {
			switch {
			case e.Op == "acquire":
				if !flushed {
					flushFreeze()
					flushed = true
				}
				acq++
				steps = append(steps, c01Step{S: "lockCheck", N: acq, Ok: e.Res == "true"})
				phase = 1 + acq
			case e.Op == "create" && strings.HasPrefix(e.Host, "recovery/"):
				steps = append(steps, c01Step{S: "setRecovery", Host: e.Host[9:], Ok: e.Res == "ok" || e.Res == "exists"})
			case e.Op == "set" && e.Host == "master":
				steps = append(steps, c01Step{S: "setMasterKey", Host: strings.Trim(e.Arg, `"`), Ok: e.Res == "ok"})
			case e.Op == "set" && e.Host == "last_rejected_switch":
				if !flushed {
					flushFreeze()
					flushed = true
				}
				steps = append(steps, c01Step{S: "rejectInside", Ok: true})
			}
			continue
		}
		if e.Kind != "sql" {
			continue
		}
		h := st[e.Host]
		if h == nil {
			continue
		}
		switch e.Op {
		case "set_ro_super":
			if phase == 1 {
				h.roSeen = true
				h.roOk = false
				if ok(e) {
					// the request counts when the verification read succeeds too
					for j := i + 1; j < len(evs); j++ {
						if evs[j].Kind == "sql" && evs[j].Host == e.Host {
							// the optimisation syncer goroutine may interleave its own statements here
							if evs[j].Op == "set_flush" || evs[j].Op == "set_sync_binlog" || evs[j].Op == "get_repl_settings" {
								continue
							}
							if evs[j].Op == "is_readonly" && ok(evs[j]) {
								h.roOk = true
							}
							break
						}
					}
				}
			}
		case "stop_io":
			if phase == 1 {
				if !flushed && false {
					flushFreeze()
				}
				h.ioSeen = true
				ioSteps = append(ioSteps, c01Step{S: "stopIO", Host: e.Host, Ok: ok(e)})
			}
		case "set_online":
			steps = append(steps, c01Step{S: "setOnline", Host: e.Host, Ok: ok(e)})
		case "stop_replica":
			// performChangeMaster = stop, change, start ; promotion = stop, reset
			j := i + 1
			for j < len(evs) && !(evs[j].Kind == "sql" && evs[j].Host == e.Host) {
				j++
			}
			switch {
			case !ok(e):
				steps = append(steps, c01Step{S: "stopReplica", Host: e.Host, Ok: false})
			case j < len(evs) && evs[j].Op == "change_source":
				cok := ok(evs[j])
				to := evs[j].Arg
				if cok {
					// start must succeed too
					k := j + 1
					for k < len(evs) && !(evs[k].Kind == "sql" && evs[k].Host == e.Host) {
						k++
					}
					cok = k < len(evs) && evs[k].Op == "start_replica" && ok(evs[k])
				}
				steps = append(steps, c01Step{S: "changeMaster", Host: e.Host, To: to, Ok: cok})
			case j < len(evs) && evs[j].Op == "reset_replica_all":
				steps = append(steps, c01Step{S: "stopSlave", Host: e.Host, Ok: true}, c01Step{S: "resetSlaveAll", Host: e.Host, Ok: ok(evs[j])})
			default:
				// a lone successful STOP with nothing after it on that host (the connection was cut): not attributable
			}
		case "set_writable":
			steps = append(steps, c01Step{S: "setWritable", Host: e.Host, Ok: ok(e)})
		}
	}
	if !flushed {
		flushFreeze()
	}
	return steps
}

type c01Pos struct {
	Host string `json:"host"`
	Set  string `json:"set"`
	Lag  int64  `json:"lag"`
	Prio int64  `json:"prio"`
}

var c01Case int

func c01one(t *testing.T, out *verifh.Out, r *rand.Rand, dir string) {
	c01Case++
	n := 2 + r.Intn(4)
	mode := r.Intn(10) // 0-5 semi-sync, 6-7 async mode (allowed-lag exception configured), 8-9 neither
	semi := mode <= 5
	w := 1 + r.Intn(2)
	wd, tree, hosts := vStdWorld(n, semi, w)
	master := hosts[0]
	mgr := hosts[n-1]
	cfg := vConfig(mgr, dir)
	cfg.SemiSync, cfg.RplSemiSyncMasterWaitForSlaveCount = semi, w
	cfg.SlaveCatchUpTimeout = 10 * time.Second
	cfg.WaitReplicationStartTimeout = 3 * time.Second
	cfg.DBSetRoForceTimeout = 10 * time.Second
	cfg.PriorityChoiceMaxLag = 60 * time.Second
	async := mode == 6 || mode == 7
	if async {
		cfg.ASync, cfg.ReplMon, cfg.AsyncAllowedLag = true, true, 60*time.Second
		tree.Put("master_repl_mon_ts", "1000.000")
	}
	_ = os.Remove(cfg.Emergefile)
	app, d := vNewApp(tree, cfg)
	defer vClose(app)
	d.LockAnswer = "true"
	if err := app.cluster.UpdateHostsInfo(); err != nil {
		t.Fatal(err)
	}
	// leftovers in the optimisation registry: a host that is not a list member (listed first) and a replica that is still
	// relaxed and registered — optimisation must be switched off on every candidate before the freeze
	if r.Intn(4) == 0 {
		relaxed := hosts[1+r.Intn(n-1)]
		tree.Put("optimization_nodes", "")
		tree.Put("optimization_nodes/a0", optimization.DCSState{Status: optimization.StatusEnabled})
		tree.Put("optimization_nodes/"+relaxed, optimization.DCSState{Status: optimization.StatusEnabled})
		wd.Nodes[relaxed].FlushLog, wd.Nodes[relaxed].SyncBinlog = 2, 1000
		if r.Intn(3) == 0 { // … and restoring it fails once: it must stay registered (and the procedure must not go on)
			wd.AddFault(relaxed, []string{"set_flush", "set_sync_binlog"}[r.Intn(2)], 1, "err:1105")
		}
	}
	um := wd.Nodes[master].UUID
	u2 := "77777777-0000-0000-0000-000000000077"
	foreign := "99999999-0000-0000-0000-000000000099"
	// GTID history: an older source uuid fully replicated everywhere, the master at 1-100 (maybe with a gap)
	base := u2 + ":1-50,"
	mset := fmt.Sprintf("%s%s:1-100", base, um)
	if r.Intn(4) == 0 {
		mset = fmt.Sprintf("%s%s:1-80:85-100", base, um)
	}
	wd.Nodes[master].Executed = mset
	for _, h := range hosts[1:] {
		nd := wd.Nodes[h]
		nd.InstantRepl = true
		ex := 100 - []int{0, 0, 0, 1, 5, 20}[r.Intn(6)]
		re := ex + r.Intn(100-ex+1)
		nd.Executed = fmt.Sprintf("%s%s:1-%d", base, um, ex)
		nd.Retrieved = fmt.Sprintf("%s:1-%d", um, re)
		if r.Intn(8) == 0 { // diverged replica; half of them also miss some of the master's transactions (incomparable sets)
			if r.Intn(2) == 0 {
				nd.Executed = fmt.Sprintf("%s%s:1-90", base, um)
				nd.Retrieved = fmt.Sprintf("%s:1-90", um)
			}
			nd.Executed += "," + foreign + ":1-3"
		}
		nd.ReplMonDelay = int64([]int{0, 30, 59, 60, 61, 500}[r.Intn(6)])
		if r.Intn(5) == 0 || (mode == 6 && r.Intn(2) == 0) { // SQL thread broken: what was downloaded is never applied, so this host can never catch up
			nd.Repl.SQL, nd.Repl.SQLErrno = false, 1062
		}
		nd.LagWhenRunning = float64([]int{0, 0, 10, 59, 60, 61, 500}[r.Intn(7)])
		nd.Repl.LogFile, nd.Repl.LogPos = "mysql-bin.000001", 1000
		// replication keeps the replica from catching up by itself before the freeze
		nd.InstantRepl = false
		tree.Put("ha_nodes/"+h, mysql.NodeConfiguration{Priority: int64(r.Intn(3))})
	}
	// every fourth world with three replicas or more: sets that are not totally ordered — a replica that diverged sits
	// between a less and a more advanced one, so whether it is compared with the final maximum depends on the order in
	// which the positions arrive (chosen by case index, not by the generator, so the other worlds stay what they were)
	if c01Case%4 == 3 && n >= 4 {
		roles := [][]int{{98, 90, 99}, {98, 99, 90}, {90, 98, 99}, {90, 99, 98}, {99, 90, 98}, {99, 98, 90}}[(c01Case/4)%6]
		for i, ex := range roles {
			nd := wd.Nodes[hosts[1+i]]
			nd.Executed = fmt.Sprintf("%s%s:1-%d", base, um, ex)
			nd.Retrieved = fmt.Sprintf("%s:1-%d", um, ex)
			if ex == 90 {
				nd.Executed += "," + foreign + ":1-3"
			}
		}
	}
	// request
	kind := r.Intn(7) // 0-1 to a host, 2 from master (planned), 3 automatic failover, 4 operator-forced failover, 5 worker (no transition),
	// 6 an automatic failover taken up again after the master key already moved: `from` is not the recorded master any more
	sw := &Switchover{InitiatedBy: "op", InitiatedAt: time.Now()}
	switch kind {
	case 0, 1:
		sw.To, sw.Cause, sw.MasterTransition = hosts[1+r.Intn(n-1)], CauseManual, SwitchoverTransition
	case 2:
		sw.From, sw.Cause, sw.MasterTransition = master, CauseManual, SwitchoverTransition
	case 3:
		sw.From, sw.Cause, sw.MasterTransition = master, CauseAuto, FailoverTransition
	case 4:
		sw.From, sw.Cause, sw.MasterTransition = master, CauseManual, FailoverTransition
	case 5:
		sw.From, sw.Cause = master, CauseWorker
	case 6:
		sw.From, sw.Cause, sw.MasterTransition = hosts[1+r.Intn(n-1)], CauseAuto, FailoverTransition
	}
	tree.Put("switch", sw)
	// the speed-up phase before a planned switchover does something only when the replica it picks is far behind
	if sw.MasterTransition == SwitchoverTransition && semi && r.Intn(2) == 0 {
		for _, h := range hosts[1:] {
			if sw.To == "" || sw.To == h {
				wd.Nodes[h].LagWhenRunning = 500
			}
		}
	}
	// node losses present from the start
	if kind == 3 || r.Intn(6) == 0 {
		switch r.Intn(3) {
		case 0:
			wd.Nodes[master].Alive = false
		case 1:
			wd.Nodes[master].Hang = true
		}
	}
	for _, h := range hosts[1:] {
		if h != mgr && r.Intn(8) == 0 {
			wd.Nodes[h].Alive = false
		}
	}
	active := append([]string{}, hosts...)
	if r.Intn(4) == 0 && n > 2 {
		active = active[:n-1]
	}
	tree.Put("active_nodes", active)
	// after the freeze the IO threads are stopped; the SQL threads keep applying what was retrieved — some of them only after
	// a few seconds (busy with a long transaction): when positions are read, what they received is not applied yet although
	// they report a lag
	for _, h := range hosts[1:] {
		wd.Nodes[h].InstantRepl = true
		wd.Nodes[h].Repl.IO = true
		if r.Intn(4) == 0 {
			wd.Nodes[h].ApplyAfter = time.Now().Add(time.Duration(2+r.Intn(4)) * time.Second)
		}
	}
	// keep replicas from downloading before they are frozen: the master is "quiet" (nothing new) — retrieved tails are what they have
	cs := app.getClusterStateFromDB()
	for _, h := range hosts[1:] { // restore what the view query's progress may have applied: nothing new can arrive (master has only 1-100)
		_ = h
	}
	// a single fault, or a node loss at a call boundary, or a lost lock
	fault := map[string]any{}
	switch r.Intn(6) {
	case 5:
		// a slow server: every statement takes most of (but less than) the statement time-out to arrive
		slow := hosts[r.Intn(n)]
		if sw.To != "" && r.Intn(2) == 0 {
			slow = sw.To
		}
		if r.Intn(2) == 0 {
			wd.Nodes[slow].Latency = cfg.DBTimeout * 6 / 10
			fault = map[string]any{"slow": slow}
		} else {
			// a latency blip everywhere (servers and coordination service), starting when the speed-up phase's first
			// synchronisation fires (3 s) or a little later, lasting a little longer than one statement time-out
			from := time.Now().Add([]time.Duration{3 * time.Second, 3 * time.Second, 1 * time.Second, 6 * time.Second}[r.Intn(4)])
			wd.BlipFrom, wd.BlipTo, wd.BlipLat = from, from.Add(cfg.DBTimeout*13/10), cfg.DBTimeout*6/10
			fault = map[string]any{"blip_from_ms": from.Sub(time.Now()).Milliseconds()}
		}
	case 0:
		ops := []string{"set_ro_super", "stop_io", "replica_status", "gtid_executed", "set_online", "stop_replica", "change_source", "start_replica",
			"reset_replica_all", "set_writable", "is_readonly", "events", "ss_status", "set_flush", "set_sync_binlog"}
		modes := []string{"err:1105", "err:1105", "hang", "lost:1105", "err:1205"}
		fh, fo, fm := hosts[r.Intn(n)], ops[r.Intn(len(ops))], modes[r.Intn(len(modes))]
		nth := r.Intn(3) // 0 = every time (retries do not help), 1 / 2 = that occurrence only
		wd.AddFault(fh, fo, nth, fm)
		fault = map[string]any{"host": fh, "op": fo, "mode": fm, "nth": nth}
	case 1:
		// a node dies when a given statement kind first arrives anywhere
		trigger := []string{"set_ro_super", "stop_io", "change_source", "reset_replica_all", "set_writable", "stop_replica", "gtid_executed", "set_online"}[r.Intn(8)]
		victim := hosts[r.Intn(n)]
		done := false
		wd.OnStmt = func(host, op, arg string) {
			if op == trigger && !done && victim != mgr && victim != host {
				done = true
				wd.Kill(victim)
			}
		}
		fault = map[string]any{"kill": victim, "at": trigger}
	case 2:
		d.LockAnswer = ""
		d.LockScript = [][]bool{{false}, {true, false}, {true, true}}[r.Intn(3)]
		fault = map[string]any{"lock_script": d.LockScript}
	case 3:
		p := []string{"master", "recovery", "active_nodes"}[r.Intn(3)]
		wd.AddFault("dcs:"+p, []string{"set", "create"}[r.Intn(2)], 1, []string{"err", "lost"}[r.Intn(2)])
		fault = map[string]any{"dcs": p}
	}
	var snaps []c01Snap
	lockSeen := 0
	wd.OnDcs = func(client, op, path, res string) {
		if op == "acquire" {
			lockSeen++
			if lockSeen == 1 {
				var reg []string
				for p := range tree.SnapshotNoLock("optimization_nodes") {
					if strings.HasPrefix(p, "optimization_nodes/") {
						reg = append(reg, p[19:])
					}
				}
				sort.Strings(reg)
				snaps = append(snaps, c01Snap{At: "lock1", Nodes: wd.DigestNoLock(), Registry: reg})
			}
		}
	}
	prevStmt := wd.OnStmt
	promoSnap := false
	// the lag each frozen host reports when its position is read (the first status query after the first lock re-check):
	// it can differ from the snapshot taken at the lock re-check when a call in between takes seconds
	posLag := map[string]any{}
	var posMu sync.Mutex
	wd.OnStmt = func(host, op, arg string) { // runs on the server goroutines, several at a time
		if op == "replica_status" && lockSeen >= 1 {
			posMu.Lock()
			if _, seen := posLag[host]; !seen {
				if l, ok := wd.ReportedLagNow(host); ok {
					if l != nil {
						posLag[host] = *l
					} else {
						posLag[host] = nil
					}
				}
			}
			posMu.Unlock()
		}
		if op == "reset_replica_all" && !promoSnap {
			promoSnap = true
			snaps = append(snaps, c01Snap{At: "promote:" + host, Nodes: wd.Digest()})
		}
		if prevStmt != nil {
			prevStmt(host, op, arg)
		}
		if op == "set_writable" {
			reg := []string{}
			for p := range tree.Snapshot("optimization_nodes") {
				if strings.HasPrefix(p, "optimization_nodes/") {
					reg = append(reg, p[19:])
				}
			}
			sort.Strings(reg)
			snaps = append(snaps, c01Snap{At: "writable:" + host, Nodes: wd.Digest(), Registry: reg})
		}
	}
	wd.TakeLog()
	panicked := ""
	var err error
	func() {
		defer func() {
			if x := recover(); x != nil {
				panicked = fmt.Sprint(x)
			}
		}()
		err = app.performSwitchover(cs, active, sw, master)
	}()
	wd.OnStmt, wd.OnDcs = nil, nil
	evs := wd.TakeLog()
	// whatever the procedure left running (it must have joined its helpers) gets time to show itself
	time.Sleep(20 * time.Second)
	synctest.Wait()
	var late []string
	for _, e := range wd.TakeLog() {
		if (e.Kind == "sql" && fakes.IsMutating(e.Op)) || (e.Kind == "dcs" && (e.Op == "set" || e.Op == "create" || e.Op == "delete")) {
			late = append(late, e.Host+":"+e.Op+"("+e.Arg+")="+e.Res)
		}
	}
	var regAfter []string
	for p := range tree.Snapshot("optimization_nodes") {
		if strings.HasPrefix(p, "optimization_nodes/") {
			regAfter = append(regAfter, p[19:])
		}
	}
	sort.Strings(regAfter)
	steps := c01observe(evs, hosts)
	_, emErr := os.Stat(cfg.Emergefile)
	emerge := emErr == nil
	_ = os.Remove(cfg.Emergefile)
	prios := map[string]int64{}
	for _, h := range hosts {
		var nc mysql.NodeConfiguration
		if tree.GetJSON("ha_nodes/"+h, &nc) {
			prios[h] = nc.Priority
		}
	}
	var evl []string
	for _, e := range evs {
		if e.Kind == "sql" && (e.Op == "ping" || e.Op == "get_repl_settings" || e.Op == "get_offline" || e.Op == "uuid") {
			continue
		}
		x := e.Host + ":" + e.Op
		if e.Arg != "" && len(e.Arg) < 40 {
			x += "(" + e.Arg + ")"
		}
		r := e.Res
		if len(r) > 24 {
			r = r[:24]
		}
		evl = append(evl, x+"="+r)
	}
	errS := ""
	if err != nil {
		errS = err.Error()
		if len(errS) > 160 {
			errS = errS[:160]
		}
	}
	var masterAfter string
	tree.GetJSON("master", &masterAfter)
	out.Line(map[string]any{"k": "c01",
		"cfg":    map[string]any{"semi_sync": semi, "wait_count": w, "async": async, "async_allowed_lag": int64(cfg.AsyncAllowedLag), "max_lag": 60},
		"cs":     vCSList(cs), "active": active, "old_master": master, "hosts": hosts, "prios": prios,
		"sw":     map[string]any{"from": sw.From, "to": sw.To, "cause_auto": sw.Cause == CauseAuto, "failover_type": sw.MasterTransition == FailoverTransition, "turbo": sw.MasterTransition == SwitchoverTransition && semi},
		"fault":  fault, "evs": evl, "steps": steps, "snaps": snaps, "emerge": emerge, "err": errS, "panic": panicked,
		"final":  wd.Digest(), "master_after": masterAfter, "switch_present": tree.Has("switch"), "recovery": tree.Snapshot("recovery"),
		"late": late, "pos_lag": posLag, "opt_registry_after": regAfter, "active_after": func() []string { var l []string; tree.GetJSON("active_nodes", &l); return l }()})
}

func TestVerifC01(t *testing.T) {
	out := verifh.Open(t)
	defer out.Close()
	rnd := verifh.Rand()
	dir := t.TempDir()
	n := verifh.Pick(1500, 30000)
	for base := 0; base < n; base += 50 {
		vBubble(t, func() {
			for i := base; i < min(base+50, n); i++ {
				c01one(t, out, rnd, dir)
			}
		})
	}
}
