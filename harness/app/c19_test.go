//go:build verif

package app

import (
	"math"
	"fmt"
	"math/rand"
	"sort"
	"strings"
	"testing"
	"time"

	app_dcs "github.com/yandex/mysync/internal/app/dcs"
	nodestate "github.com/yandex/mysync/internal/app/node_state"
	"github.com/yandex/mysync/internal/app/optimization"
	"github.com/yandex/mysync/internal/mysql"
	"github.com/yandex/mysync/internal/verifh"
	"github.com/yandex/mysync/internal/verifh/fakes"
)

type c19Ev struct {
	Call string `json:"call"`
	Host string `json:"host"`
	Ok   bool   `json:"ok"`
}

// c19trace: set_flush+set_sync_binlog pairs are "restore" (master's values) or "relax" (2/1000)
func c19trace(evs []fakes.Event, master string, mFlush, mSync int) []c19Ev {
	tr := []c19Ev{}
	for i := 0; i < len(evs); i++ {
		e := evs[i]
		ok := e.Res == "ok" || strings.HasPrefix(e.Res, "row")
		switch {
		case e.Kind == "dcs" && e.Op == "delete" && strings.HasPrefix(e.Host, "optimization_nodes/"):
			tr = append(tr, c19Ev{"deregister", e.Host[19:], e.Res == "ok" || e.Res == "ok:absent"})
		case e.Kind == "dcs" && e.Op == "create" && strings.HasPrefix(e.Host, "optimization_nodes/"):
			tr = append(tr, c19Ev{"register", e.Host[19:], e.Res == "ok" || e.Res == "exists"})
		case e.Kind == "sql" && e.Op == "get_repl_settings" && e.Host != master:
			tr = append(tr, c19Ev{"readSettings", e.Host, ok})
		case e.Kind == "sql" && e.Op == "set_flush":
			kind := "restore"
			if e.Arg == "2" && !(mFlush == 2) {
				kind = "relax"
			}
			res := ok
			if ok {
				// the second statement of the pair
				res = false
				for j := i + 1; j < len(evs); j++ {
					if evs[j].Kind == "sql" && evs[j].Host == e.Host {
						if evs[j].Op == "set_sync_binlog" {
							res = evs[j].Res == "ok"
							if evs[j].Arg == "1000" && mSync != 1000 {
								kind = "relax"
							} else {
								kind = "restore"
							}
							i = j
						}
						break
					}
				}
			}
			tr = append(tr, c19Ev{kind, e.Host, res})
		}
	}
	return tr
}

func c19one(t *testing.T, out *verifh.Out, r *rand.Rand, dir string) {
	wd := fakes.NewWorld()
	tree := fakes.NewTree(wd)
	all := []string{"m", "h1", "h2", "h3", "h4", "h5"}
	for _, h := range all {
		nd := wd.AddNode(h)
		if h != "m" {
			nd.Repl = &fakes.Repl{Source: "m", IO: true, SQL: true}
			nd.ReadOnly, nd.SuperReadOnly = true, true
		}
	}
	vRegister(tree, all, nil)
	tree.Put("master", "m")
	cfg := vConfig("m", dir)
	cfg.OptimizationConfig.LowReplicationMark = 60 * time.Second
	cfg.OptimizationConfig.HighReplicationMark = 120 * time.Second
	app, _ := vNewApp(tree, cfg)
	defer vClose(app)
	if err := app.cluster.UpdateHostsInfo(); err != nil {
		t.Fatal(err)
	}
	mFlush, mSync := 1, 1
	if r.Intn(6) == 0 {
		mFlush, mSync = 2, 1 // the operator runs the master with flush=2
	}
	wd.Nodes["m"].FlushLog, wd.Nodes["m"].SyncBinlog = mFlush, mSync
	lags := []int{-1, 0, 59000, 59600, 60000, 60400, 119000, 119500, 120000, 120300, 500000} // ms (the code: float seconds)
	tree.Put("optimization_nodes", "")
	lagOf := map[string]int{}
	noState := map[string]bool{}
	for _, h := range all[1:] {
		lagOf[h] = lags[r.Intn(len(lags))]
		nd := wd.Nodes[h]
		nd.FlushLog, nd.SyncBinlog = mFlush, mSync
		if r.Intn(3) == 0 {
			nd.FlushLog, nd.SyncBinlog = 2, 1000
		}
		switch r.Intn(5) {
		case 0, 1:
			tree.Put("optimization_nodes/"+h, optimization.DCSState{Status: optimization.StatusNew})
		case 2:
			tree.Put("optimization_nodes/"+h, optimization.DCSState{Status: optimization.StatusEnabled})
		}
		if r.Intn(10) == 0 {
			noState[h] = true // the view has no entry for this host (e.g. it was just registered)
		}
	}
	if r.Intn(6) == 0 {
		tree.Put("optimization_nodes/m", optimization.DCSState{}) // the master itself is registered
	}
	if r.Intn(6) == 0 {
		tree.Put("optimization_nodes/gone", optimization.DCSState{}) // a host that is no longer a cluster host
	}
	nSync := 1 + r.Intn(3)
	for k := 0; k < nSync; k++ {
		wd.ClearFaults()
		failHost, failOp := "", ""
		if r.Intn(4) == 0 {
			failHost = all[1+r.Intn(5)]
			failOp = []string{"set_flush", "set_sync_binlog", "get_repl_settings", "delete", "get_state"}[r.Intn(5)]
			if failOp == "delete" {
				wd.AddFault("dcs:optimization_nodes/"+failHost, "delete", 0, "err")
			} else if failOp == "get_state" {
				// the registry entry of one host cannot be read: the sync must not act on a partial picture
				wd.AddFault("dcs:optimization_nodes/"+failHost, "get", 0, "err")
			} else {
				wd.AddFault(failHost, failOp, 0, "err:1105")
			}
		}
		// the cluster view handed to the syncer (as stateManager does: health records)
		view := map[string]*nodestate.NodeState{}
		view["m"] = &nodestate.NodeState{PingOk: true, IsMaster: true, ReplicationSettings: &mysql.ReplicationSettings{InnodbFlushLogAtTrxCommit: mFlush, SyncBinlog: mSync}}
		for _, h := range all[1:] {
			if noState[h] {
				continue
			}
			nd := wd.Nodes[h]
			ns := &nodestate.NodeState{PingOk: true, ReplicationSettings: &mysql.ReplicationSettings{InnodbFlushLogAtTrxCommit: nd.FlushLog, SyncBinlog: nd.SyncBinlog}}
			if lagOf[h] >= 0 {
				l := float64(lagOf[h]) / 1000
				ns.SlaveState = &nodestate.SlaveState{MasterHost: "m", ReplicationState: mysql.ReplicationRunning, ReplicationLag: &l}
			} else if r.Intn(2) == 0 {
				ns.SlaveState = &nodestate.SlaveState{MasterHost: "m", ReplicationState: mysql.ReplicationStopped}
			}
			view[h] = ns
		}
		// registry as the syncer will read it
		type regj struct {
			Name     string `json:"name"`
			Enabled  *bool  `json:"enabled"`
			IsMaster bool   `json:"is_master"`
			Lag      *int   `json:"lag"`
			Flush    *int   `json:"flush"`
			Sync     *int   `json:"sync"`
			HasNode  bool   `json:"has_node"`
		}
		var reg []regj
		var names []string
		for p := range tree.Snapshot("optimization_nodes") {
			if strings.HasPrefix(p, "optimization_nodes/") {
				names = append(names, p[19:])
			}
		}
		sort.Strings(names)
		for _, h := range names {
			var st optimization.DCSState
			tree.GetJSON("optimization_nodes/"+h, &st)
			en := st.Status == optimization.StatusEnabled
			x := regj{Name: h, Enabled: &en, HasNode: app.cluster.Get(h) != nil}
			if ns, ok := view[h]; ok {
				x.IsMaster = ns.IsMaster
				if ns.SlaveState != nil && ns.SlaveState.ReplicationLag != nil {
					l := int(math.Round(*ns.SlaveState.ReplicationLag * 1000))
					x.Lag = &l
				}
				if ns.ReplicationSettings != nil {
					f, s := ns.ReplicationSettings.InnodbFlushLogAtTrxCommit, ns.ReplicationSettings.SyncBinlog
					x.Flush, x.Sync = &f, &s
				}
			}
			reg = append(reg, x)
		}
		current := map[string][2]int{}
		for _, h := range all {
			current[h] = [2]int{wd.Nodes[h].FlushLog, wd.Nodes[h].SyncBinlog}
		}
		adapter := app_dcs.NewOptimizationClusterAdapter(app.cluster, view, "m")
		wd.TakeLog()
		panicked := ""
		var err error
		func() {
			defer func() {
				if x := recover(); x != nil {
					panicked = fmt.Sprint(x)
					if len(panicked) > 100 {
						panicked = panicked[:100]
					}
				}
			}()
			err = app.optSyncer.Sync(adapter)
		}()
		evs := wd.TakeLog()
		tr := c19trace(evs, "m", mFlush, mSync)
		after := map[string][2]int{}
		for _, h := range all {
			after[h] = [2]int{wd.Nodes[h].FlushLog, wd.Nodes[h].SyncBinlog}
		}
		var regAfter []string
		for p := range tree.Snapshot("optimization_nodes") {
			if strings.HasPrefix(p, "optimization_nodes/") {
				regAfter = append(regAfter, p[19:])
			}
		}
		sort.Strings(regAfter)
		if regAfter == nil {
			regAfter = []string{}
		}
		if reg == nil {
			reg = []regj{}
		}
		out.Line(map[string]any{"k": "c19sync", "cfg": map[string]int{"low": 60, "high": 120}, "master_rs": [2]int{mFlush, mSync}, "registry": reg,
			"current": current, "fail": map[string]string{"host": failHost, "op": failOp}, "trace": tr, "err": err != nil, "panic": panicked,
			"after": after, "registry_after": regAfter, "replicas": all[1:], "sync_no": k})
		if panicked != "" {
			break
		}
		// between syncs the lag of the optimising host may improve
		for _, h := range all[1:] {
			if r.Intn(3) == 0 && lagOf[h] > 0 {
				lagOf[h] = lags[r.Intn(len(lags))]
			}
		}
	}
}

func TestVerifC19(t *testing.T) {
	out := verifh.Open(t)
	defer out.Close()
	rnd := verifh.Rand()
	dir := t.TempDir()
	n := verifh.Pick(2500, 40000)
	for base := 0; base < n; base += 100 {
		vBubble(t, func() {
			for i := base; i < min(base+100, n); i++ {
				c19one(t, out, rnd, dir)
			}
		})
	}
}
