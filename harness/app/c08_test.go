//go:build verif

package app

import (
	"fmt"
	"math/rand"
	"testing"
	"time"

	"github.com/yandex/mysync/internal/verifh"
	"github.com/yandex/mysync/internal/verifh/fakes"
)

func c08one(t *testing.T, out *verifh.Out, r *rand.Rand, dir string) {
	n := 1 + r.Intn(4)
	semi := r.Intn(3) != 0
	wd, tree, hosts := vStdWorld(n, semi, 1)
	role := r.Intn(6) // 0-3 master, 4 replica, 5 non-HA host
	local := hosts[0]
	if role == 4 && n > 1 {
		local = hosts[1]
	}
	if role == 5 {
		local = "x9"
		nd := wd.AddNode("x9")
		nd.ReadOnly, nd.SuperReadOnly = true, true
		nd.Repl = &fakes.Repl{Source: hosts[0], IO: true, SQL: true}
		tree.Put("cascade_nodes/x9", map[string]string{"stream_from": hosts[0]})
	}
	// a cascade replica somewhere in the cluster: it is not an HA node and changes nothing about who is exempt
	if r.Intn(3) == 0 {
		nd := wd.AddNode("x8")
		nd.ReadOnly, nd.SuperReadOnly = true, true
		nd.Repl = &fakes.Repl{Source: hosts[0], IO: true, SQL: true}
		tree.Put("cascade_nodes/x8", map[string]string{"stream_from": hosts[0]})
	}
	cfg := vConfig(local, dir)
	cfg.SemiSync = semi
	cfg.InactivationDelay = 30 * time.Second
	cfg.DBLostCheckTimeout = 5 * time.Second
	cfg.DisableSetReadonlyOnLost = r.Intn(8) == 0
	cfg.DBSetRoForceTimeout = 10 * time.Second
	app, d := vNewApp(tree, cfg)
	defer vClose(app)
	if err := app.cluster.UpdateHostsInfo(); err != nil {
		t.Fatal(err)
	}
	app.state = stateLost
	ln := wd.Nodes[local]
	ln.WaitCount = 1 + r.Intn(2)
	// per-replica condition
	conds := map[string]int{}
	for _, h := range hosts {
		if h == local {
			continue
		}
		c := []int{0, 0, 0, 1, 2, 3, 4, 5, 6, 7}[r.Intn(10)] // 0 streaming 1 stopped 2 wrong source 3 not semi-sync 4 refusing 5 timing out 6 IO thread down with an error 7 SQL thread down with an error
		conds[h] = c
		nd := wd.Nodes[h]
		if local == hosts[0] {
			switch c {
			case 1:
				nd.Repl.IO = false
			case 6:
				nd.Repl.IO, nd.Repl.IOErrno = false, 2003
			case 7:
				nd.Repl.SQL, nd.Repl.SQLErrno = false, 1062
			case 2:
				nd.Repl.Source = "elsewhere"
			case 3:
				nd.SemiSlave = false
			case 4:
				nd.Alive = false
			case 5:
				nd.Hang = true
			}
		} else {
			switch c {
			case 4:
				nd.Alive = false
			case 5:
				nd.Hang = true
			}
		}
	}
	// outcome of the read-only attempt on the local node
	roKind := r.Intn(6) // 0-1 ok, 2 lock wait 1205 for ever, 3 deadline, 4 other error, 5 1205 until semi-sync is off
	ackKind := r.Intn(4) // 0 not waiting 1 waiting 2 read fails 3 waiting
	stopFault := r.Intn(6) // 1 set_offline fails 2 ss_disable fails
	switch roKind {
	case 2:
		ln.StuckRO = -1
	case 3:
		wd.AddFault(local, "set_ro_super", 0, "hang")
	case 4:
		wd.AddFault(local, "set_ro_super", 0, "err:1105")
	case 5:
		ln.StuckUntilSSDisable = true
	}
	switch ackKind {
	case 1, 3:
		ln.WaitingAck = true
	case 2:
		wd.AddFault(local, "waiting_ack", 0, "err:1105")
	}
	switch stopFault {
	case 1:
		wd.AddFault(local, "set_offline", 0, "err:1105")
	case 2:
		wd.AddFault(local, "ss_disable", 0, "err:1105")
	}
	ssStatusFails := r.Intn(12) == 0
	if ssStatusFails {
		wd.AddFault(local, "ss_status", 0, "err:1105")
	}
	ticks := 1 + r.Intn(3)
	for tick := 0; tick < ticks; tick++ {
		if tick > 0 {
			time.Sleep([]time.Duration{0, 24 * time.Second, 25 * time.Second, 26 * time.Second, 29 * time.Second, 30 * time.Second, 31 * time.Second}[r.Intn(7)])
		}
		d.Connected = tick == ticks-1 && r.Intn(5) == 0
		anyHang := false
		probes := []string{}
		for _, h := range app.cluster.HANodeHosts() {
			nd := wd.Nodes[h]
			p := "notGood"
			switch {
			case nd.Hang:
				p = "timeout"
				anyHang = true
			case !nd.Alive:
			case h == local:
			case nd.Repl != nil && nd.Repl.IO && nd.Repl.SQL && nd.Repl.Source == local && (!semi || nd.SemiSlave):
				p = "good"
			}
			probes = append(probes, p)
		}
		timerBefore := app.t.Get(ZKHALost, local)
		start := time.Now()
		roBefore := ln.ReadOnly
		stuckBefore, waitingBefore := ln.StuckUntilSSDisable, ln.WaitingAck
		localIsMaster := ln.Repl == nil
		wd.TakeLog()
		panicked := ""
		var next appState
		func() {
			defer func() {
				if x := recover(); x != nil {
					panicked = fmt.Sprint(x)
				}
			}()
			next = app.stateLost()
		}()
		evs := wd.TakeLog()
		// action phase = from the first read-only statement at the local node
		acts := []string{}
		remote := []string{}
		inRo, phase := false, false
		for _, e := range evs {
			if e.Kind != "sql" {
				if e.Kind == "dcs" && (e.Op == "set" || e.Op == "create" || e.Op == "delete" || e.Op == "release") {
					remote = append(remote, "dcs:"+e.Op+":"+e.Host)
				}
				continue
			}
			if e.Host != local {
				if fakes.IsMutating(e.Op) {
					remote = append(remote, e.Host+":"+e.Op)
				}
				continue
			}
			if e.Op == "set_ro_super" || e.Op == "set_ro_nosuper" {
				phase = true
			}
			if !phase {
				continue
			}
			switch e.Op {
			case "set_ro_super", "set_ro_nosuper", "is_readonly", "processlist", "kill":
				if !inRo {
					acts = append(acts, "ro")
					inRo = true
				}
			case "waiting_ack":
				acts, inRo = append(acts, "checkWaitingAck"), false
			case "set_offline":
				acts, inRo = append(acts, "setOffline"), false
			case "ss_disable":
				acts, inRo = append(acts, "semiSyncDisable"), false
			case "gtid_executed":
				acts, inRo = append(acts, "readGtid"), false
			default:
				if fakes.IsMutating(e.Op) {
					acts, inRo = append(acts, "OTHER:"+e.Op), false
				}
			}
		}
		now := start
		if anyHang && !d.Connected && n > 1 && role != 5 && !cfg.DisableSetReadonlyOnLost {
			now = start.Add(cfg.DBLostCheckTimeout)
		}
		effRo, effAck := roKind, ackKind
		if roKind == 5 && !stuckBefore {
			effRo = 0
		}
		if (ackKind == 1 || ackKind == 3) && !waitingBefore {
			effAck = 0
		}
		in := map[string]any{"connected": d.Connected, "ha_count": len(app.cluster.HANodeHosts()), "local_is_ha": role != 5,
			"local_is_master": localIsMaster, "probes": probes, "now": now.UnixNano(),
			"ro_kind": effRo, "ack_kind": effAck, "stop_fault": stopFault, "wait_count": ln.WaitCount, "ss_status_fails": ssStatusFails}
		if !timerBefore.IsZero() {
			in["timer"] = timerBefore.UnixNano()
		}
		ta := app.t.Get(ZKHALost, local)
		var timerAfter int64
		if !ta.IsZero() {
			timerAfter = ta.UnixNano()
		}
		out.Line(map[string]any{"k": "c08", "cfg": map[string]any{"semi_sync": semi, "disable_ro": cfg.DisableSetReadonlyOnLost, "delay": int64(cfg.InactivationDelay)},
			"in": in, "acts": acts, "remote": remote, "next": string(next), "timer_after": timerAfter, "panic": panicked,
			"ro_before": roBefore, "ro_after": ln.ReadOnly, "offline_after": ln.Offline, "ss_master_after": ln.SemiMaster, "conds": conds, "tick": tick})
		if panicked != "" {
			break
		}
	}
}

func TestVerifC08(t *testing.T) {
	out := verifh.Open(t)
	defer out.Close()
	rnd := verifh.Rand()
	dir := t.TempDir()
	n := verifh.Pick(2500, 40000)
	for base := 0; base < n; base += 100 {
		vBubble(t, func() {
			for i := base; i < min(base+100, n); i++ {
				c08one(t, out, rnd, dir)
			}
		})
	}
}
