//go:build verif

package app

// The observation layer: the REAL getNodeState against one fake server whose ground truth and failing probe are
// generated; the Lean model MysyncModel/App/Observe.lean must build the same snapshot.

import (
	"fmt"
	"math/rand"
	"testing"

	"github.com/yandex/mysync/internal/mysql"
	"github.com/yandex/mysync/internal/verifh"
	"github.com/yandex/mysync/internal/verifh/fakes"
)

func TestVerifObs(t *testing.T) {
	out := verifh.Open(t)
	defer out.Close()
	rnd := verifh.Rand()
	dir := t.TempDir()
	n := verifh.Pick(3000, 40000)
	probes := []string{"", "", "ping", "is_readonly", "get_offline", "replica_status", "get_repl_settings", "gtid_executed", "ss_status"}
	for i := 0; i < n; i++ {
		r := rand.New(rand.NewSource(rnd.Int63()))
		vBubble(t, func() {
			wd, tree, hosts := vStdWorld(3, true, 1)
			cascade := r.Intn(3) == 0
			if cascade {
				tree.Del("ha_nodes/h2")
				tree.Put("cascade_nodes", "")
				tree.Put("cascade_nodes/h2", mysql.CascadeNodeConfiguration{StreamFrom: "h3"})
			}
			cfg := vConfig(hosts[0], dir)
			app, _ := vNewApp(tree, cfg)
			defer vClose(app)
			if err := app.cluster.UpdateHostsInfo(); err != nil {
				t.Fatal(err)
			}
			nd := wd.Nodes["h2"]
			nd.InstantRepl = false
			nd.ReadOnly, nd.SuperReadOnly, nd.Offline = r.Intn(2) == 0, r.Intn(2) == 0, r.Intn(3) == 0
			nd.SemiMaster, nd.SemiSlave, nd.WaitCount = r.Intn(3) == 0, r.Intn(2) == 0, 1+r.Intn(3)
			nd.FlushLog, nd.SyncBinlog = []int{1, 2}[r.Intn(2)], []int{1, 1000}[r.Intn(2)]
			nd.Executed = fmt.Sprintf("%s:1-%d", wd.Nodes["h1"].UUID, 90+r.Intn(20))
			if r.Intn(4) == 0 {
				nd.Repl = nil
			} else {
				nd.Repl = &fakes.Repl{Source: []string{"h1", "h3", "ghost"}[r.Intn(3)], IO: r.Intn(4) != 0, SQL: r.Intn(4) != 0,
					LogFile: "mysql-bin.000002", LogPos: int64(1000 + r.Intn(5)*1000)}
				if !nd.Repl.IO && r.Intn(2) == 0 {
					nd.Repl.IOErrno = []int{1236, 2003, 13114}[r.Intn(3)]
				}
				if !nd.Repl.SQL && r.Intn(2) == 0 {
					nd.Repl.SQLErrno = []int{1062, 1146, 1118}[r.Intn(3)]
				}
				nd.Retrieved = fmt.Sprintf("%s:1-%d", wd.Nodes["h1"].UUID, 100+r.Intn(5))
				nd.LagWhenRunning = float64([]int{0, 5, 61, 500}[r.Intn(4)])
				if r.Intn(5) == 0 {
					l := float64(r.Intn(1000))
					nd.Repl.Lag = &l
				}
			}
			fault := map[string]any{"op": "", "mode": "", "ping2": ""}
			op := probes[r.Intn(len(probes))]
			if op != "" {
				mode := []string{"err:1105", "err:1040", "hang", "err:1203"}[r.Intn(4)]
				nth := 1
				wd.AddFault("h2", op, nth, mode)
				fault["op"], fault["mode"] = op, mode
				if op != "ping" && r.Intn(3) == 0 {
					// the node goes away right after: the second ping fails, too
					m2 := []string{"err:1040", "err:1105", "hang"}[r.Intn(3)]
					wd.AddFault("h2", "ping", 2, m2)
					fault["ping2"] = m2
				}
			}
			digest := map[string]any{}
			for _, d := range wd.Digest() {
				if d.Host == "h2" {
					digest = map[string]any{"ro": d.ReadOnly, "sro": d.SuperReadOnly, "offline": d.Offline, "is_replica": d.IsReplica, "source": d.Source,
						"io": d.IO, "sql": d.SQL, "io_errno": d.IOErrno, "sql_errno": d.SQLErrno, "executed": d.Executed, "retrieved": d.Retrieved,
						"ss_master": d.SemiMaster, "ss_slave": d.SemiSlave, "wait_count": d.WaitCount, "flush_log": d.FlushLog, "sync_binlog": d.SyncBinlog}
				}
			}
			if nd.Repl != nil {
				digest["log_file"], digest["log_pos"] = nd.Repl.LogFile, nd.Repl.LogPos
				// Seconds_Behind_Source as the server reports it (absent = NULL)
				for _, d := range wd.Digest() {
					if d.Host == "h2" && d.Lag != nil {
						digest["lag"] = *d.Lag
					}
				}
			}
			st := app.getNodeState("h2")
			out.Line(map[string]any{"k": "obs", "truth": digest, "cascade": cascade, "fault": fault, "state": st})
		})
	}
}
