//go:build verif

package app

import (
	"fmt"
	"math/rand"
	"os"
	"testing"
	"time"

	"github.com/yandex/mysync/internal/verifh"
	"github.com/yandex/mysync/internal/verifh/fakes"
)

func c09one(t *testing.T, out *verifh.Out, r *rand.Rand, dir string) {
	n := 2 + r.Intn(2)
	semi := r.Intn(3) != 0
	wd, tree, hosts := vStdWorld(n, semi, 1)
	me := hosts[r.Intn(n)]
	cfg := vConfig(me, dir)
	cfg.SemiSync = semi
	cfg.WaitReplicationStartTimeout = 2 * time.Second
	_ = os.Remove(cfg.Emergefile)
	_ = os.Remove(cfg.Maintenancefile)
	app, d := vNewApp(tree, cfg)
	defer vClose(app)
	// what the operator did while mysync was paused
	opMove := r.Intn(6)
	switch opMove {
	case 1: // moved the master to h2 by hand
		for _, h := range hosts {
			nd := wd.Nodes[h]
			if h == hosts[1] {
				nd.Repl, nd.ReadOnly, nd.SuperReadOnly = nil, false, false
			} else {
				nd.Repl = &fakes.Repl{Source: hosts[1], IO: true, SQL: true}
				nd.ReadOnly, nd.SuperReadOnly = true, true
			}
		}
	case 2: // created two masters
		wd.Nodes[hosts[1]].Repl = nil
		wd.Nodes[hosts[1]].ReadOnly, wd.Nodes[hosts[1]].SuperReadOnly = false, false
	case 3: // no alive master
		wd.Nodes[hosts[0]].Alive = false
	case 4: // a replica is down
		wd.Nodes[hosts[n-1]].Alive = false
	case 5: // every node is a replica (master turned into a replica of h2, h2 of h1)
		wd.Nodes[hosts[0]].Repl = &fakes.Repl{Source: hosts[1], IO: true, SQL: true}
	}
	wd.Nodes[me].Alive = true
	maint := r.Intn(7) // 0 absent 1 full paused 2 full paused should-leave 3 light paused 4 full unacked 5 read error 6 light should-leave
	now := time.Now()
	switch maint {
	case 1:
		tree.Put("maintenance", Maintenance{InitiatedAt: now, MySyncPaused: true, Mode: FullMode})
	case 2:
		tree.Put("maintenance", Maintenance{InitiatedAt: now, MySyncPaused: true, ShouldLeave: true, Mode: FullMode})
	case 3:
		tree.Put("maintenance", Maintenance{InitiatedAt: now, MySyncPaused: true, Mode: LightMode})
	case 4:
		tree.Put("maintenance", Maintenance{InitiatedAt: now, Mode: FullMode})
	case 5:
		wd.AddFault("dcs:maintenance", "get", 0, "err")
	case 6:
		tree.Put("maintenance", Maintenance{InitiatedAt: now, MySyncPaused: true, ShouldLeave: true, Mode: LightMode})
	}
	if r.Intn(4) == 0 { // entering with semi-sync disabled removed the list
		tree.Del("active_nodes")
	}
	fileBefore := r.Intn(2) == 0
	if fileBefore {
		_ = os.WriteFile(cfg.Maintenancefile, []byte{}, 0o644)
	}
	lock := r.Intn(4) != 0
	if lock {
		d.LockAnswer = "true"
	} else {
		d.LockAnswer = "false"
	}
	handler := []string{"maintenance", "maintenance", "candidate", "firstrun"}[r.Intn(4)]
	connected := true
	if handler != "maintenance" && r.Intn(4) == 0 {
		connected = false
		d.Connected = false
		cfg.DcsWaitTimeout = time.Second
	}
	_ = app.cluster.UpdateHostsInfo()
	view := app.getClusterStateFromDB()
	wd.TakeLog()
	var next appState
	panicked := ""
	func() {
		defer func() {
			if x := recover(); x != nil {
				panicked = fmt.Sprint(x)
			}
		}()
		switch handler {
		case "maintenance":
			next = app.stateMaintenance()
		case "candidate":
			next = app.stateCandidate()
		case "firstrun":
			next = app.stateFirstRun()
		}
	}()
	evs := wd.TakeLog()
	acts := []string{}
	mutating, writes := []string{}, []string{}
	_, ferr := os.Stat(cfg.Maintenancefile)
	fileAfter := ferr == nil
	if !fileBefore && fileAfter {
		acts = append(acts, "writeMaintFile")
	}
	seenRepair, seenUpdate := false, false
	masterSet := ""
	for _, e := range evs {
		if e.Kind == "sql" && fakes.IsMutating(e.Op) {
			mutating = append(mutating, e.Host+":"+e.Op)
		}
		if e.Kind == "dcs" && (e.Op == "set" || e.Op == "create" || e.Op == "delete") {
			writes = append(writes, e.Op+":"+e.Host+":"+e.Res)
		}
		switch {
		case e.Kind == "dcs" && e.Op == "set" && e.Host == "master":
			masterSet = e.Arg
			acts = append(acts, "setMasterHost:"+e.Arg)
		case e.Kind == "sql" && e.Op == "events" && !seenRepair:
			seenRepair = true
			acts = append(acts, "repairCluster")
		case e.Kind == "dcs" && e.Op == "children" && e.Host == "recovery" && !seenUpdate:
			seenUpdate = true
			acts = append(acts, "updateActiveNodes")
		case e.Kind == "dcs" && e.Op == "delete" && e.Host == "maintenance":
			acts = append(acts, "deleteMaintenance")
		}
	}
	if _, err := os.Stat(cfg.Emergefile); err == nil {
		acts = append([]string{"writeEmerge"}, acts...)
	}
	if (fileBefore || !fileBefore && fileAfter) && !fileAfter {
		acts = append(acts, "removeMaintFile")
	} else if handler == "maintenance" && !fileAfter {
		acts = append(acts, "removeMaintFile")
	}
	var activeAfter []string
	hasActive := tree.GetJSON("active_nodes", &activeAfter)
	if activeAfter == nil {
		activeAfter = []string{}
	}
	var masterAfter string
	tree.GetJSON("master", &masterAfter)
	out.Line(map[string]any{"k": "c09h", "handler": handler, "maint": maint, "lock": lock, "connected": connected, "file_before": fileBefore,
		"file_after": fileAfter, "cs": vCSList(view), "next": string(next), "acts": acts, "mutating": mutating, "writes": writes,
		"active_after": activeAfter, "has_active": hasActive, "master_after": masterAfter, "master_set": masterSet,
		"maint_after": tree.Has("maintenance"), "op_move": opMove, "nodes": wd.Digest(), "panic": panicked})
}

func TestVerifC09Handlers(t *testing.T) {
	out := verifh.Open(t)
	defer out.Close()
	rnd := verifh.Rand()
	dir := t.TempDir()
	n := verifh.Pick(2000, 30000)
	for base := 0; base < n; base += 100 {
		vBubble(t, func() {
			for i := base; i < min(base+100, n); i++ {
				c09one(t, out, rnd, dir)
			}
		})
	}
}
