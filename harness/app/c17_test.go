//go:build verif

package app

import (
	"math/rand"
	"strings"
	"testing"
	"time"

	nodestate "github.com/yandex/mysync/internal/app/node_state"
	"github.com/yandex/mysync/internal/mysql"
	"github.com/yandex/mysync/internal/verifh"
	"github.com/yandex/mysync/internal/verifh/fakes"
)

var c17hosts = []string{"za-1", "za-2", "za-3", "zb-1", "zb-2", "solo"}

type c17repl struct {
	present   bool
	pingOk    bool
	offline   bool
	lag       int // milliseconds (the code's lag is a float of seconds); -1 nil lag, -2 nil slave state
	broken    bool
	resetup   int // 0 absent(err) 1 status=true 2 stale(before startup) 3 fresh negative 4 startup query fails
	offFault  bool
}

// c17acts maps the event log of one call to the abstract action vocabulary of the Lean model.
func c17acts(evs []fakes.Event, host string) []string {
	acts := []string{}
	for _, e := range evs {
		switch {
		case e.Kind == "dcs" && e.Op == "get" && e.Host == "resetup_status/"+host:
			acts = append(acts, "readResetup")
		case e.Kind == "sql" && e.Op == "startup_time" && e.Host == host:
			acts = append(acts, "readStartup")
		case e.Kind == "sql" && e.Op == "set_flush" && e.Host == host:
			acts = append(acts, "setDefaultReplSettings")
		case e.Kind == "sql" && e.Op == "set_online" && e.Host == host:
			acts = append(acts, "setOnline")
		case e.Kind == "sql" && e.Op == "set_offline" && e.Host == host:
			acts = append(acts, "setOffline")
		case e.Kind == "dcs" && e.Op == "create" && e.Host == "optimization_nodes/"+host:
			acts = append(acts, "optEnable")
		case e.Kind == "dcs" && e.Op == "get" && e.Host == "last_shutdown_node_time":
			acts = append(acts, "readLastShutdown")
		case e.Kind == "dcs" && e.Op == "set" && e.Host == "last_shutdown_node_time":
			acts = append(acts, "updateLastShutdown")
		case e.Kind == "sql" && fakes.IsMutating(e.Op) && e.Host != host && e.Op != "set_sync_binlog":
			acts = append(acts, "FOREIGN:"+e.Host+":"+e.Op)
		case e.Kind == "sql" && fakes.IsMutating(e.Op) && e.Op != "set_sync_binlog" && e.Op != "set_flush":
			acts = append(acts, "OTHER:"+e.Op)
		}
	}
	return acts
}

type c17scn struct {
	pct      int
	sep      string
	masterRO bool
	masterOffline bool
	masterMarked  bool
	repl     []c17repl // index = c17hosts
	lastShut int // 0 absent, 1 old (1000 s), 2 recent (10 s), 3 read fails
	perHost  bool
}

func c17run(t *testing.T, out *verifh.Out, scns []c17scn, dir string) {
	vBubble(t, func() {
		wd := fakes.NewWorld()
		tree := fakes.NewTree(wd)
		all := append([]string{"m"}, c17hosts...)
		for _, h := range all {
			wd.AddNode(h)
		}
		vRegister(tree, all, nil)
		tree.Put("master", "m")
		cfg := vConfig("m", dir)
		cfg.OfflineModeEnableLag, cfg.OfflineModeDisableLag = 100*time.Second, 30*time.Second
		cfg.OfflineModeEnableInterval = 900 * time.Second
		if err := func() error { a, _ := vNewApp(tree, cfg); defer vClose(a); return a.cluster.UpdateHostsInfo() }(); err != nil {
			t.Fatal(err)
		}
		for _, s := range scns {
			cfg.OfflineModeMaxOfflinePct, cfg.OfflineModeAZSeparator = s.pct, s.sep
			app, _ := vNewApp(tree, cfg) // the filter is chosen at construction time
			_ = app.cluster.UpdateHostsInfo()
			wd.ClearFaults()
			tree.Del("resetup_status")
			tree.Del("last_shutdown_node_time")
			tree.Del("optimization_nodes")
			tree.Del("recovery")
			now := time.Now()
			switch s.lastShut {
			case 1:
				tree.Put("last_shutdown_node_time", now.Add(-1000*time.Second))
			case 2:
				tree.Put("last_shutdown_node_time", now.Add(-10*time.Second))
			case 3:
				wd.AddFault("dcs:last_shutdown_node_time", "get", 0, "err")
			}
			if s.masterMarked {
				tree.Put("recovery/m", nil)
			}
			cs := map[string]*nodestate.NodeState{}
			mn := wd.Nodes["m"]
			mn.ReadOnly, mn.SuperReadOnly, mn.Offline = s.masterRO, s.masterRO, s.masterOffline
			cs["m"] = &nodestate.NodeState{PingOk: true, IsMaster: true, IsReadOnly: s.masterRO, IsOffline: s.masterOffline, MasterState: &nodestate.MasterState{}}
			resetupDesc := map[string]any{}
			for i, r := range s.repl {
				h := c17hosts[i]
				if !r.present {
					continue
				}
				n := wd.Nodes[h]
				n.Offline = r.offline
				n.ReadOnly, n.SuperReadOnly = true, true
				n.Repl = &fakes.Repl{Source: "m", IO: true, SQL: true}
				ns := &nodestate.NodeState{PingOk: r.pingOk, IsOffline: r.offline, IsReadOnly: true}
				if r.lag != -2 {
					ss := &nodestate.SlaveState{MasterHost: "m", ReplicationState: mysql.ReplicationRunning}
					if r.lag >= 0 {
						l := float64(r.lag) / 1000
						ss.ReplicationLag = &l
					}
					if r.broken {
						// permanently broken: by the SQL thread, by the IO thread, or by the IO thread while the SQL thread
						// shows a transient error of its own
						switch (i + r.lag/1000 + r.resetup) % 3 {
						case 0:
							ss.LastSQLErrno = 1146
						case 1:
							ss.LastIOErrno = 1236
						case 2:
							ss.LastSQLErrno, ss.LastIOErrno = 1062, 13114
						}
						ss.ReplicationState = mysql.ReplicationError
					}
					ns.SlaveState = ss
				}
				cs[h] = ns
				switch r.resetup {
				case 0:
					resetupDesc[h] = "status_err"
				case 1:
					tree.Put("resetup_status/"+h, mysql.ResetupStatus{Status: true, UpdateTime: time.Unix(2000, 0)})
					resetupDesc[h] = map[string]bool{"status": true, "before": false}
				case 2:
					tree.Put("resetup_status/"+h, mysql.ResetupStatus{Status: false, UpdateTime: time.Unix(500, 0)})
					resetupDesc[h] = map[string]bool{"status": false, "before": true}
				case 3:
					tree.Put("resetup_status/"+h, mysql.ResetupStatus{Status: false, UpdateTime: time.Unix(2000, 0)})
					resetupDesc[h] = map[string]bool{"status": false, "before": false}
				case 4:
					tree.Put("resetup_status/"+h, mysql.ResetupStatus{Status: false, UpdateTime: time.Unix(2000, 0)})
					wd.AddFault(h, "startup_time", 0, "err:1105")
					resetupDesc[h] = "startup_err"
				}
				if r.offFault {
					wd.AddFault(h, "set_offline", 0, "err:1105")
				}
			}
			vAddSourceInfo(cs) // as in a probed view
			cfgj := map[string]any{"enable_lag": 100, "disable_lag": 30, "pct": s.pct, "sep": s.sep, "interval": 900}
			if s.perHost {
				// (a) the inner function host by host, in sorted order, with one shared pending map
				pending := map[string]int{}
				updated := false
				for _, h := range vSortedKeys(cs) {
					if h == "m" || !cs[h].PingOk {
						continue
					}
					az := getAvailabilityZone(h, s.sep)
					before := pending[az]
					age := -1
					switch {
					case s.lastShut == 3:
						age = -1
					case updated || s.lastShut == 0:
						age = 0
					case s.lastShut == 1:
						age = 1000
					case s.lastShut == 2:
						age = 10
					}
					wd.TakeLog()
					app.repairSlaveOfflineMode(h, cs[h], app.cluster.Get("m"), cs["m"], cs, pending)
					evs := wd.TakeLog()
					acts := c17acts(evs, h)
					for _, a := range acts {
						if a == "updateLastShutdown" {
							updated = true
						}
					}
					if s.lastShut == 0 {
						// GetOrCreate created the key on first use
						for _, e := range evs {
							if e.Kind == "dcs" && e.Op == "create" && e.Host == "last_shutdown_node_time" {
								updated = true
							}
						}
					}
					idx := 0
					for i, x := range c17hosts {
						if x == h {
							idx = i
						}
					}
					out.Line(map[string]any{"k": "c17host", "cfg": cfgj, "host": h, "state": cs[h], "master_ro": s.masterRO, "cs": vCSList(cs),
						"pending_in_az": before, "pending_after": pending[az], "resetup": resetupDesc[h], "set_offline_fault": s.repl[idx].offFault,
						"last_age": age, "acts": acts, "az": az})
					// keep the snapshot as the code keeps it: unchanged during the pass
				}
			} else {
				// (b) the whole pass through the real loop (Go map order)
				wd.TakeLog()
				app.repairOfflineMode(cs, "m")
				evs := wd.TakeLog()
				offl, onl, other := []string{}, []string{}, []string{}
				lastUpdates := 0
				for _, e := range evs {
					if e.Kind == "dcs" && (e.Op == "set" || e.Op == "create") && e.Host == "last_shutdown_node_time" {
						lastUpdates++
					}
					if e.Kind != "sql" || !fakes.IsMutating(e.Op) {
						continue
					}
					switch e.Op {
					case "set_offline":
						offl = append(offl, e.Host)
					case "set_online":
						onl = append(onl, e.Host)
					case "set_flush", "set_sync_binlog":
					default:
						other = append(other, e.Host+":"+e.Op)
					}
				}
				out.Line(map[string]any{"k": "c17pass", "cfg": cfgj, "master": "m", "cs": vCSList(cs), "offline": offl, "online": onl, "other": other,
					"resetup": resetupDesc, "master_marked": s.masterMarked, "last_updates": lastUpdates, "last_shut": s.lastShut})
			}
			vClose(app)
		}
	})
}

func TestVerifC17(t *testing.T) {
	out := verifh.Open(t)
	defer out.Close()
	rnd := verifh.Rand()
	dir := t.TempDir()
	pcts := []int{0, 1, 32, 33, 34, 49, 50, 51, 66, 67, 99, 100, -5, 150}
	lags := []int{-2, -1, 0, 30000, 30250, 30700, 31000, 99900, 100000, 100500, 100999, 101000, 500000}
	var scns []c17scn
	gen := func(r *rand.Rand, perHost bool) c17scn {
		s := c17scn{pct: pcts[r.Intn(len(pcts))], sep: []string{"-", "-", "-", "", "z", "a-"}[r.Intn(6)], masterRO: r.Intn(6) == 0,
			masterOffline: r.Intn(4) == 0, masterMarked: r.Intn(3) == 0, lastShut: r.Intn(4), perHost: perHost}
		for range c17hosts {
			rp := c17repl{present: r.Intn(5) != 0, pingOk: r.Intn(8) != 0, offline: r.Intn(3) == 0, lag: lags[r.Intn(len(lags))],
				resetup: r.Intn(5), offFault: perHost && r.Intn(10) == 0}
			rp.broken = r.Intn(5) == 0
			if r.Intn(3) == 0 { // bias towards "everybody lags" so that the cap matters
				rp.lag = []int{500000, 100400}[r.Intn(2)]
				rp.offline = false
			} else if r.Intn(4) == 0 { // … and towards "offline and caught up again" so that the way back is exercised
				rp.offline = true
				rp.lag = []int{0, 29000, 29999, 30000, 30001, 30600, 31000}[r.Intn(7)]
			}
			s.repl = append(s.repl, rp)
		}
		if !perHost {
			// whole passes: the record of the last shutdown is old or recent; broken replicas do not lag (so that the two
			// reasons for going offline stay apart and the order-free monitors of a pass apply)
			s.lastShut = 1 + r.Intn(2)
			for i := range s.repl {
				if s.repl[i].broken {
					s.repl[i].lag = []int{0, 29000, 50000}[r.Intn(3)]
				}
			}
		}
		return s
	}
	n := verifh.Pick(1500, 25000)
	for i := 0; i < n; i++ {
		scns = append(scns, gen(rnd, i%2 == 0))
	}
	for i := 0; i < len(scns); i += 200 {
		c17run(t, out, scns[i:min(i+200, len(scns))], dir)
	}
	_ = strings.Join
}
