//go:build verif

package app

import (
	"math"
	"sort"
	"testing"
	"time"

	gomysql "github.com/go-mysql-org/go-mysql/mysql"
	"github.com/rs/zerolog"

	"github.com/yandex/mysync/internal/mysql/gtids"
	"github.com/yandex/mysync/internal/verifh"
)

type vIv = [2]int64
type vEnt struct {
	Sid string `json:"sid"`
	Tag string `json:"tag"`
	Iv  []vIv  `json:"iv"`
}

func vSetJSON(s gtids.GTIDSet) []vEnt {
	m := s.(*gomysql.MysqlGTIDSet)
	out := []vEnt{}
	for u, tm := range *m {
		for tag, ivs := range tm {
			e := vEnt{Sid: u.String(), Tag: tag.String(), Iv: []vIv{}}
			for _, iv := range ivs {
				e.Iv = append(e.Iv, vIv{iv.Start, iv.Stop})
			}
			out = append(out, e)
		}
	}
	sort.Slice(out, func(i, j int) bool { return out[i].Sid+"|"+out[i].Tag < out[j].Sid+"|"+out[j].Tag })
	return out
}

func vNopLogger() *zerolog.Logger {
	l := zerolog.Nop()
	return &l
}

const (
	vU1 = "00000000-0000-0000-0000-00000000000a"
	vU2 = "00000000-0000-0000-0000-00000000000b"
)

// a small lattice with comparable and incomparable members (and a tagged one)
var vLattice = []string{
	"",
	vU1 + ":1-5",
	vU1 + ":1-9",
	vU1 + ":1-5," + vU2 + ":1-3",
	vU1 + ":1-9," + vU2 + ":1-3",
	vU1 + ":1-5:7-9",        // gap: incomparable with 1-9? no, subset of 1-9; incomparable with nothing else but useful
	vU2 + ":1-4",            // incomparable with every set that has U1 transactions
	vU1 + ":1-5:tg:1-2",     // tagged
	vU1 + ":1-9," + vU2 + ":1-4",
}

type vPos struct {
	Host string `json:"host"`
	Set  []vEnt `json:"set"`
	Lag  int64  `json:"lag"`
	Prio int64  `json:"prio"`
}

// lags and the bound are floats of seconds in the code; the trace carries them in milliseconds (the model only compares and
// subtracts them, so the unit does not matter as long as it is the same everywhere)
func vEmitList(out *verifh.Out, ps []nodePosition, boundMs int64, from string) {
	jp := make([]vPos, len(ps))
	for i, p := range ps {
		jp[i] = vPos{p.host, vSetJSON(p.gtidset), int64(math.Round(p.lag * 1000)), p.priority}
	}
	rec := map[string]any{"k": "c14", "pos": jp, "bound": boundMs, "from": from}
	if len(ps) > 0 {
		h, _, sb := findMostRecentNodeAndDetectSplitbrain(ps)
		rec["mr_host"], rec["mr_split"] = h, sb
	} else {
		rec["mr_host"], rec["mr_split"] = "", false
	}
	if tp := getMostPriorityNode(ps); tp != nil {
		rec["top"] = tp.host
	} else {
		rec["top"] = ""
	}
	cand := ps
	if from != "" {
		cand = filterOutNodeFromPositions(ps, from)
	}
	// the recursion is not guaranteed to terminate for a negative bound; the harness never passes one
	h, err := getMostDesirableNode(vNopLogger(), cand, time.Duration(boundMs)*time.Millisecond)
	rec["res"], rec["err"] = h, err != nil
	out.Line(rec)
}

func TestVerifC14(t *testing.T) {
	out := verifh.Open(t)
	defer out.Close()
	rnd := verifh.Rand()
	sets := make([]gtids.GTIDSet, len(vLattice))
	for i, s := range vLattice {
		sets[i] = gtids.ParseGtidSet(s)
	}
	hosts := []string{"h0", "h1", "h2", "h3", "h4"}
	bounds := []int64{0, 1000, 60000, 100000, 500} // ms
	lagsFor := func(b int64) []int64 {
		return []int64{0, b - 1000, b, b + 1000, 2*b + 1000, 2*b + 2000, 99999999000, b + 300, b - 300, 2*b + 700, 2*b - 400, 250}
	}
	// 1. exhaustive: all lists of length 0..2 (quick) / 0..3 (thorough) over a reduced grid
	maxLen := verifh.Pick(2, 3)
	redSets := []int{1, 2, 3, 6}
	for _, b := range bounds[1:] {
		lags := []int64{0, b, b + 400, 2*b + 2000}
		var rec func(cur []nodePosition)
		rec = func(cur []nodePosition) {
			vEmitList(out, cur, b, "")
			if len(cur) > 0 {
				vEmitList(out, cur, b, cur[len(cur)-1].host)
			}
			if len(cur) == maxLen {
				return
			}
			for _, si := range redSets {
				for _, lg := range lags {
					for pr := int64(0); pr < 3; pr++ {
						next := append(append([]nodePosition{}, cur...), nodePosition{hosts[len(cur)], sets[si], float64(lg) / 1000, pr})
						rec(next)
					}
				}
			}
		}
		rec(nil)
	}
	// 2. random lists of 0..5
	// bound 0 comes last: a change that makes the recursion unbounded there kills the process (a stack overflow cannot be
	// recovered), and everything written before is still judged
	n := verifh.Pick(30000, 400000)
	for i := 0; i < n; i++ {
		b := bounds[1+rnd.Intn(len(bounds)-1)]
		if i >= n-n/8 {
			b = 0
		}
		lags := lagsFor(b)
		ln := rnd.Intn(6)
		ps := make([]nodePosition, ln)
		chain := rnd.Intn(2) == 0
		for j := range ps {
			si := rnd.Intn(len(sets))
			if chain {
				si = []int{0, 1, 2, 5}[rnd.Intn(4)] // totally ordered by inclusion? 0 ⊂ 1 ⊂ 5 ⊂ 2
			}
			lg := lags[rnd.Intn(len(lags))]
			if lg < 0 {
				lg = 0
			}
			ps[j] = nodePosition{hosts[j], sets[si], float64(lg) / 1000, int64(rnd.Intn(4))}
		}
		from := ""
		if ln > 0 && rnd.Intn(2) == 0 {
			from = hosts[rnd.Intn(ln)]
		}
		vEmitList(out, ps, b, from)
	}
}
