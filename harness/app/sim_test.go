//go:build verif

package app

// Cluster simulation (C02, C07, C03-ii, C20): N REAL mysync daemons — the real state handlers, health /
// recovery / lag loops, the real zkDCS over go-zookeeper — in one synctest bubble (virtual time), over
// the fake MySQL servers (wire protocol, replication and semi-sync acknowledgement semantics, T4) and the
// fake ZooKeeper ensemble (T5), with a semi-sync-aware client workload and one injected fault per run.
// One trace line per run ("simrun"); the Lean replay evaluates the property's own predicates on it.

import (
	"context"
	"encoding/json"
	"fmt"
	"math/rand"
	"os"
	"runtime"
	"runtime/debug"
	"sort"
	"strings"
	"sync"
	"testing"
	"testing/synctest"
	"time"

	"github.com/rs/zerolog"

	"github.com/yandex/mysync/internal/app/resetup"
	"github.com/yandex/mysync/internal/config"
	"github.com/yandex/mysync/internal/dcs"
	"github.com/yandex/mysync/internal/mysql"
	"github.com/yandex/mysync/internal/verifh"
	"github.com/yandex/mysync/internal/verifh/fakes"
)

type simCfg struct {
	N           int    `json:"n"`
	Cascade     bool   `json:"cascade"`
	WaitCount   int    `json:"wait_count"`
	Failover    bool   `json:"failover"`
	MasterFirst bool   `json:"master_first"`
	FailDelay   int    `json:"failover_delay_s"`
	Fault       string `json:"fault"`  // kind
	Target      string `json:"target"` // host (or "all")
	OffsetMs    int    `json:"offset_ms"`
	DurationS   int    `json:"duration_s"` // 0 = until the heal phase
	Request     string `json:"request"`    // "" | "to:<h>" | "from:<h>"
	CrashAfter  int    `json:"crash_after"` // C07: kill the manager after its n-th external call once a request is running (0 = off)
	Successor   string `json:"successor"`   // C07: "same" | "other"
	SlowHost    string `json:"slow_host"`   // a lagging replica ("" = none)
	SlowPeriod  int    `json:"slow_period"` // its replication moves every n-th round of 500 ms (8 = a few seconds behind, 120 = a minute: longer than a failover takes)
	Chaos       string `json:"chaos"`       // C20: ill-formed coordination content / hostile environment applied after warm-up
	MgrSwitch   bool   `json:"manager_switchover"` // manager_switchover: a manager that lost sight of the master and of the quorum steps down
}

type simProc struct {
	host     string
	port     string
	app      *App
	d        *fakes.DCS
	cancel   context.CancelFunc
	wg       sync.WaitGroup
	alive    bool
	panics   []string
	mu       sync.Mutex
	gen      int
}

type simSample struct {
	T        int64    `json:"t"`
	Writable []string `json:"writable"`
	Acked    []string `json:"acked"` // hosts that acknowledged a client write in this round
	Pending  []string `json:"pending"`
	Manager  string   `json:"manager"`
	MasterKey string  `json:"master_key"`
}

type sim struct {
	t      *testing.T
	cfg    simCfg
	W      *fakes.World
	Tree   *fakes.Tree
	hosts  []string          // HA hosts
	all    []string          // HA + cascade
	casc   map[string]string // cascade host -> stream_from
	procs  map[string]*simProc
	dir    string
	admin  *fakes.DCS
	samples []simSample
	dead   map[string]bool // mysync processes that were killed (their calls have no effect any more)
	owner    string         // server-side owner of the manager lock, tracked from the primitive log
	lastOwned map[string]int64
	actsLog  []simAct
	callLog  []string // C07 dry run: the external calls of the managing daemon while the request runs
	calls  map[string]int  // external calls per mysync since the request started (C07)
	crashed string
	crashedAt int64
	crashCall string
	crashState string
	mu     sync.Mutex
}

func simZkCfg(host string) dcs.ZookeeperConfig {
	z, _ := dcs.DefaultZookeeperConfig()
	z.Hostname = host
	z.Namespace = "/mysync/sim"
	z.Hosts = []string{"zk1:2181"}
	z.SessionTimeout = 3 * time.Second
	z.BackoffRandFactor = 0
	return z
}

func (s *sim) mkConfig(host string, port int) *config.Config {
	c := vConfig(host, s.dir)
	c.MySQL.Port = port
	c.MySQL.ReplicationPort = port
	c.Zookeeper = simZkCfg(host)
	c.TickInterval = 2 * time.Second
	c.HealthCheckInterval = 5 * time.Second
	c.RecoveryCheckInterval = 5 * time.Second
	c.DBLostCheckTimeout = time.Second
	c.DBTimeout = 5 * time.Second
	c.Failover = s.cfg.Failover
	c.FailoverDelay = time.Duration(s.cfg.FailDelay) * time.Second
	c.FailoverCooldown = time.Hour
	c.InactivationDelay = 5 * time.Second
	c.SemiSync = true
	c.RplSemiSyncMasterWaitForSlaveCount = s.cfg.WaitCount
	c.MasterFirstAdjustSSOrder = s.cfg.MasterFirst
	c.ReplicationRepairCooldown = 10 * time.Second
	c.ReplicationRepairMaxAttempts = 3
	c.DBSetRoForceTimeout = 40 * time.Second
	c.OfflineModeEnableLag = 10 * time.Second
	c.OfflineModeDisableLag = 5 * time.Second
	c.DcsWaitTimeout = 10 * time.Second
	c.ManagerSwitchover = s.cfg.MgrSwitch
	c.ManagerElectionDelayAfterQuorumLoss = 30 * time.Second
	c.ManagerLockAcquireDelayAfterQuorumLoss = 45 * time.Second
	return c
}

func (s *sim) newProc(host string, idx int) *simProc {
	p := s.procs[host]
	if p == nil {
		p = &simProc{host: host, port: fmt.Sprint(3400 + idx)}
		s.procs[host] = p
		s.W.Mu.Lock()
		if s.W.PortOwner == nil {
			s.W.PortOwner = map[string]string{}
		}
		s.W.PortOwner[p.port] = host
		s.W.Mu.Unlock()
	}
	return p
}

// start brings a mysync process up on host: what NewApp + Run do, minus the lock file, the signal handler and the
// TCP / DNS part of NewZookeeper.
func (s *sim) start(host string) {
	idx := sort.SearchStrings(s.all, host)
	for i, h := range s.all {
		if h == host {
			idx = i
		}
	}
	p := s.newProc(host, idx)
	var port int
	fmt.Sscan(p.port, &port)
	cfg := s.mkConfig(host, port)
	zl := zerolog.Nop()
	if os.Getenv("VERIF_SIM_LOG") != "" {
		zl = zerolog.New(os.Stdout).With().Str("H", host).Logger().Level(zerolog.InfoLevel)
	}
	logger := &zl
	p.gen++
	d := s.Tree.Client(fmt.Sprintf("%s#%d", host, p.gen))
	cluster, err := mysql.NewCluster(cfg, logger, d)
	if err != nil {
		s.t.Fatal(err)
	}
	ext, _ := mysql.NewExternalReplication(cfg.ExternalReplicationType, logger, cfg.ExternalReplicationChannel)
	app := &App{
		state: stateFirstRun, config: cfg, logger: logger, loggerCloser: vNopCloser{}, t: NewTimings(), dcs: d, cluster: cluster,
		replRepairState: make(map[string]*ReplicationRepairState), slaveReadPositions: make(map[string]string),
		externalReplication: ext, switchHelper: mysql.NewSwitchHelper(cfg), offlineModeFilter: NewOfflineModeFilter(cfg, logger),
	}
	app.appDCS = NewAppDCS(d, cfg, logger)
	app.lagResetupper = resetup.NewLagResetupper(logger, app, cfg.ResetupHostLag.Seconds())
	ctx, cancel := context.WithCancel(context.Background())
	p.app, p.d, p.cancel, p.alive = app, d, cancel, true
	s.mu.Lock()
	delete(s.dead, host)
	s.mu.Unlock()
	guard := func(name string, f func()) {
		p.wg.Add(1)
		go func() {
			defer p.wg.Done()
			defer func() {
				if r := recover(); r != nil {
					p.mu.Lock()
					p.panics = append(p.panics, fmt.Sprintf("%s: %v @ %s", name, r, simSite(debug.Stack())))
					p.mu.Unlock()
				}
			}()
			f()
		}()
	}
	guard("healthChecker", func() { app.healthChecker(ctx) })
	guard("recoveryChecker", func() { app.recoveryChecker(ctx) })
	guard("replicationLagChecker", func() { app.replicationLagChecker(ctx) })
	guard("stateFileHandler", func() { app.stateFileHandler(ctx) })
	handlers := map[appState](func() appState){
		stateFirstRun: app.stateFirstRun, stateManager: app.stateManager, stateCandidate: app.stateCandidate,
		stateLost: app.stateLost, stateMaintenance: app.stateMaintenance,
	}
	// the main loop of Run(); a panic kills the daemon, the supervisor restarts it (as systemd would) after 5 s
	guard("main", func() {
		ticker := time.NewTicker(cfg.TickInterval)
		defer ticker.Stop()
		for {
			select {
			case <-ticker.C:
				for {
					next := handlers[app.state]()
					if next == app.state {
						break
					}
					app.state = next
				}
			case <-ctx.Done():
				return
			}
		}
	})
}

func simSite(stack []byte) string {
	// the first mysync frame below the panic; a frame of internal/app (the caller that passed the bad value) is preferred
	// to the frame of internal/mysql where the nil receiver is finally dereferenced
	lines := strings.Split(string(stack), "\n")
	clean := func(f string) string {
		f = strings.TrimSpace(f)
		if k := strings.Index(f, "/internal/"); k >= 0 {
			f = f[k+1:]
		}
		if k := strings.Index(f, " "); k >= 0 {
			f = f[:k]
		}
		return f
	}
	first := ""
	for i, l := range lines {
		if strings.Contains(l, "panic(") && i+2 < len(lines) {
			for j := i + 2; j < len(lines); j++ {
				if strings.Contains(lines[j], "/internal/") && strings.Contains(lines[j], ".go:") && !strings.Contains(lines[j], "zz_verif_") {
					if first == "" {
						first = clean(lines[j])
					}
					if strings.Contains(lines[j], "/internal/app/") {
						return clean(lines[j])
					}
				}
			}
			break
		}
	}
	if first != "" {
		return first
	}
	return "?"
}

// stop = SIGTERM (graceful); kill = the process dies: nothing it still does has any effect
func (s *sim) kill(host string) {
	p := s.procs[host]
	if p == nil || !p.alive {
		return
	}
	s.mu.Lock()
	s.dead[host] = true
	s.mu.Unlock()
	s.W.Mu.Lock()
	s.W.DeadProcs[host] = true
	s.W.Mu.Unlock()
	s.dcsCut(p, true)
	p.cancel()
	p.alive = false
	s.W.Env("kill_mysync", host, "")
}

func (s *sim) reap(host string) {
	// wait for the goroutines of a killed / stopped process (their calls time out in virtual time)
	p := s.procs[host]
	done := make(chan struct{})
	go func() { p.wg.Wait(); close(done) }()
	select {
	case <-done:
	case <-time.After(10 * time.Minute):
		s.t.Logf("process %s did not stop within 10 virtual minutes", host)
	}
	vClose(p.app)
	s.W.Mu.Lock()
	delete(s.W.DeadProcs, host)
	s.W.Mu.Unlock()
	s.Tree.ExpireSession(p.d.ID)
}

// dcsCut: the process loses (or regains) the coordination service; a lost session expires after the session time-out
func (s *sim) dcsCut(p *simProc, cut bool) {
	s.W.Mu.Lock()
	p.d.Connected = !cut
	s.W.Mu.Unlock()
	if cut {
		d := p.d
		time.AfterFunc(3*time.Second, func() {
			s.W.Mu.Lock()
			still := !d.Connected
			s.W.Mu.Unlock()
			if still {
				s.Tree.ExpireSession(d.ID)
				s.mu.Lock()
				if strings.HasPrefix(s.owner, p.host+"#") || s.owner == p.host {
					s.noteOwner("")
				}
				s.mu.Unlock()
			}
		})
	}
}

func (s *sim) stopAll() {
	for _, h := range s.all {
		if p := s.procs[h]; p != nil && p.alive {
			p.cancel()
			p.alive = false
		}
	}
	for _, h := range s.all {
		if p := s.procs[h]; p != nil && p.app != nil {
			done := make(chan struct{})
			go func() { p.wg.Wait(); close(done) }()
			select {
			case <-done:
			case <-time.After(20 * time.Minute):
				s.t.Logf("process %s did not stop", h)
			}
			vClose(p.app)
		}
	}
}

// ---- observation --------------------------------------------------------------------------------

func (s *sim) lockOwner() string {
	s.W.Mu.Lock()
	defer s.W.Mu.Unlock()
	return simHostOf(s.Tree.Lock[pathManagerLock])
}

func simHostOf(id string) string {
	if i := strings.Index(id, "#"); i >= 0 {
		return id[:i]
	}
	return id
}

func (s *sim) masterKey() string {
	var m string
	if s.Tree.GetJSON(pathMasterNode, &m) {
		return m
	}
	return ""
}

// round: one workload round — a client tries to write on every HA node (it does not know who the master is),
// then replication moves.
func (s *sim) round() {
	smp := simSample{T: time.Now().UnixNano(), Manager: s.lockOwner(), MasterKey: s.masterKey()}
	for _, h := range s.hosts {
		tx := s.W.ClientWrite(h)
		switch tx.Res {
		case "acked":
			smp.Acked = append(smp.Acked, h)
		case "pending":
			smp.Pending = append(smp.Pending, h)
		}
	}
	s.W.Replicate()
	for _, d := range s.W.Digest() {
		if d.Alive && !d.ReadOnly && !d.SuperReadOnly {
			smp.Writable = append(smp.Writable, d.Host)
		}
	}
	sort.Strings(smp.Writable)
	s.samples = append(s.samples, smp)
}

func (s *sim) runFor(d time.Duration) {
	end := time.Now().Add(d)
	for time.Now().Before(end) {
		time.Sleep(500 * time.Millisecond)
		synctest.Wait()
		s.round()
	}
}

func (s *sim) canonical() (bool, string) {
	mk := s.masterKey()
	dg := s.W.Digest()
	by := map[string]fakes.NodeDigest{}
	for _, d := range dg {
		by[d.Host] = d
	}
	m, ok := by[mk]
	if !ok {
		return false, "recorded master '" + mk + "' is not a server"
	}
	if !m.Alive || m.ReadOnly || m.SuperReadOnly {
		return false, "recorded master " + mk + " is not writable"
	}
	for _, h := range s.hosts {
		d := by[h]
		if h == mk || !d.Alive {
			continue
		}
		if !d.ReadOnly {
			return false, h + " is writable"
		}
		if !d.IsReplica || d.Source != mk {
			return false, h + " does not replicate from " + mk + " (source '" + d.Source + "')"
		}
	}
	return true, ""
}

// ---- faults --------------------------------------------------------------------------------------

func (s *sim) inject(on bool) {
	f, tgt := s.cfg.Fault, s.cfg.Target
	switch f {
	case "none", "request":
	case "crash_mysql":
		if on {
			s.W.Kill(tgt)
		} else {
			s.W.Revive(tgt)
		}
	case "isolate":
		s.W.Isolate(tgt, on)
		s.dcsCut(s.procs[tgt], on)
	case "kill_mysync":
		if on {
			s.kill(tgt)
		} else {
			s.reap(tgt)
			s.start(tgt)
		}
	case "zk_lost":
		ts := []string{tgt}
		if tgt == "all" {
			ts = s.all
		}
		for _, h := range ts {
			s.dcsCut(s.procs[h], on)
		}
	}
	if f != "none" && f != "request" {
		s.W.Env(map[bool]string{true: "fault_on", false: "fault_off"}[on], tgt, f)
	}
}

func (s *sim) request() {
	if s.cfg.Request == "" {
		return
	}
	if s.cfg.SlowHost != "" && s.cfg.Request == "to:"+s.cfg.SlowHost {
		// ask the lagging replica to take over while it really is behind: in the middle of its replication cycle
		for i := 0; i < 300 && s.W.ReplRound()%max(s.cfg.SlowPeriod, 8) != max(s.cfg.SlowPeriod, 8)/2; i++ {
			s.runFor(500 * time.Millisecond)
		}
	}
	sw := Switchover{InitiatedBy: "sim", InitiatedAt: time.Now(), Cause: CauseManual}
	if strings.HasPrefix(s.cfg.Request, "to:") {
		sw.To = s.cfg.Request[3:]
	} else {
		sw.From = s.cfg.Request[5:]
	}
	if err := s.admin.Create(pathCurrentSwitch, &sw); err != nil {
		s.W.Env("request_failed", "", err.Error())
		return
	}
	s.W.Env("request", "", s.cfg.Request)
}

// chaos: contents reachable through mysync's own CLI and external tools, and hostile environments (C20)
func (s *sim) chaos() {
	last := s.hosts[len(s.hosts)-1]
	switch s.cfg.Chaos {
	case "":
		return
	case "ghost_master":
		_ = s.admin.Set(pathMasterNode, "ghost")
	case "ghost_master_and_replicas_far_behind":
		// the lag checker of every replica compares a lag beyond resetup_host_lag with the recorded master's state
		_ = s.admin.Set(pathMasterNode, "ghost")
		s.W.Mu.Lock()
		for _, n := range s.W.Nodes {
			if n.Repl != nil {
				l := float64(200000)
				n.Repl.Lag = &l
			}
		}
		s.W.Mu.Unlock()
	case "active_ghost":
		_ = s.admin.Set(pathActiveNodes, []string{s.hosts[0], "ghost"})
	case "active_empty":
		_ = s.admin.Set(pathActiveNodes, []string{})
	case "remove_host":
		_ = s.admin.Delete(dcs.JoinPath(dcs.PathHANodesPrefix, last))
	case "remove_then_readd_host":
		_ = s.admin.Delete(dcs.JoinPath(dcs.PathHANodesPrefix, last))
		time.AfterFunc(25*time.Second, func() {
			_ = s.admin.Set(dcs.JoinPath(dcs.PathHANodesPrefix, last), mysql.NodeConfiguration{Priority: 0})
		})
	case "move_host_to_cascade_and_back":
		_ = s.admin.Set(dcs.PathCascadeNodesPrefix, "")
		_ = s.admin.Set(dcs.JoinPath(dcs.PathCascadeNodesPrefix, last), mysql.CascadeNodeConfiguration{StreamFrom: s.hosts[0]})
		_ = s.admin.Delete(dcs.JoinPath(dcs.PathHANodesPrefix, last))
		time.AfterFunc(25*time.Second, func() {
			_ = s.admin.Set(dcs.JoinPath(dcs.PathHANodesPrefix, last), mysql.NodeConfiguration{Priority: 0})
			_ = s.admin.Delete(dcs.JoinPath(dcs.PathCascadeNodesPrefix, last))
		})
	case "remove_master_host":
		_ = s.admin.Delete(dcs.JoinPath(dcs.PathHANodesPrefix, s.hosts[0]))
	case "add_host_no_server":
		_ = s.admin.Set(dcs.JoinPath(dcs.PathHANodesPrefix, "h9"), mysql.NodeConfiguration{Priority: 0})
	case "cascade_ghost":
		_ = s.admin.Set(dcs.PathCascadeNodesPrefix, "")
		_ = s.admin.Set(dcs.JoinPath(dcs.PathCascadeNodesPrefix, last), mysql.CascadeNodeConfiguration{StreamFrom: "ghost"})
		_ = s.admin.Delete(dcs.JoinPath(dcs.PathHANodesPrefix, last))
	case "cascade_self":
		_ = s.admin.Set(dcs.PathCascadeNodesPrefix, "")
		_ = s.admin.Set(dcs.JoinPath(dcs.PathCascadeNodesPrefix, last), mysql.CascadeNodeConfiguration{StreamFrom: last})
		_ = s.admin.Delete(dcs.JoinPath(dcs.PathHANodesPrefix, last))
	case "garbage_switch":
		s.Tree.PutRaw(pathCurrentSwitch, []byte("{not json"))
	case "garbage_master":
		s.Tree.PutRaw(pathMasterNode, []byte("{not json"))
	case "garbage_active":
		s.Tree.PutRaw(pathActiveNodes, []byte("17"))
	case "garbage_maintenance":
		s.Tree.PutRaw(pathMaintenance, []byte("[]"))
	case "garbage_health":
		s.Tree.PutRaw("health/"+s.hosts[0], []byte("\"x\""))
	case "garbage_last_switch":
		s.Tree.PutRaw(pathLastSwitch, []byte("null"))
	case "switch_to_ghost":
		_ = s.admin.Create(pathCurrentSwitch, &Switchover{To: "ghost", InitiatedBy: "sim", InitiatedAt: time.Now(), Cause: CauseManual})
	case "switch_from_ghost":
		_ = s.admin.Create(pathCurrentSwitch, &Switchover{From: "ghost", InitiatedBy: "sim", InitiatedAt: time.Now(), Cause: CauseManual})
	case "all_sql_fail":
		s.W.Mu.Lock()
		for _, n := range s.W.Nodes {
			n.RefuseCode = 1040
		}
		s.W.Mu.Unlock()
	case "all_sql_hang":
		s.W.Mu.Lock()
		for _, n := range s.W.Nodes {
			n.Hang = true
		}
		s.W.Mu.Unlock()
	case "dcs_down":
		s.W.Mu.Lock()
		s.Tree.Down = true
		s.W.Mu.Unlock()
	case "replica_not_replica":
		s.W.Mu.Lock()
		s.W.Nodes[last].Repl = nil
		s.W.Mu.Unlock()
	case "master_is_replica_of_ghost":
		s.W.Mu.Lock()
		s.W.Nodes[s.hosts[0]].Repl = &fakes.Repl{Source: "ghost", IO: true, SQL: true}
		s.W.Mu.Unlock()
	default:
		s.t.Fatalf("unknown chaos %q", s.cfg.Chaos)
	}
	s.W.Env("chaos", "", s.cfg.Chaos)
}

var simChaos = []string{"ghost_master_and_replicas_far_behind", "remove_then_readd_host", "move_host_to_cascade_and_back", "ghost_master", "active_ghost", "active_empty", "remove_host", "remove_master_host", "add_host_no_server", "cascade_ghost",
	"cascade_self", "garbage_switch", "garbage_master", "garbage_active", "garbage_maintenance", "garbage_health", "garbage_last_switch",
	"switch_to_ghost", "switch_from_ghost", "all_sql_fail", "all_sql_hang", "dcs_down", "replica_not_replica", "master_is_replica_of_ghost"}

// ---- one run --------------------------------------------------------------------------------------

func simRun(t *testing.T, out *verifh.Out, cfg simCfg, idx int) []string {
	dir, err := os.MkdirTemp(os.Getenv("VERIF_TMP"), "sim")
	if err != nil {
		t.Fatal(err)
	}
	defer os.RemoveAll(dir)
	g0 := runtime.NumGoroutine()
	var line map[string]any
	leftover := ""
	func() {
		// synctest panics when the bubble's main goroutine has returned and goroutines of the bubble are still blocked
		// for ever: that is a goroutine leak of the daemon (every daemon was stopped and joined) — reported, not fatal
		defer func() {
			if r := recover(); r != nil {
				leftover = fmt.Sprint(r)
				if !strings.Contains(leftover, "blocked goroutines remain") {
					panic(r)
				}
				leftover += " " + simLeakSites()
			}
		}()
		simBubble(t, cfg, idx, dir, &line)
	}()
	time.Sleep(20 * time.Millisecond)
	if line == nil {
		t.Fatalf("simulation produced no record: %s", leftover)
	}
	line["goroutines_before"] = g0
	line["goroutines_after"] = runtime.NumGoroutine()
	line["leftover_goroutines"] = leftover
	if cfg.CrashAfter >= 0 {
		out.Line(line)
	}
	cl, _ := line["call_log"].([]string)
	return cl
}

// simLeakSites names where the goroutines that are still blocked were created (from the full goroutine dump)
func simLeakSites() string {
	buf := make([]byte, 1<<20)
	buf = buf[:runtime.Stack(buf, true)]
	seen := map[string]int{}
	for _, g := range strings.Split(string(buf), "\n\n") {
		if !strings.Contains(g, "synctest bubble") || !strings.Contains(g, "(durable)") {
			continue
		}
		if i := strings.LastIndex(g, "created by "); i >= 0 {
			l := g[i+len("created by "):]
			if j := strings.Index(l, " in goroutine"); j >= 0 {
				l = l[:j]
			}
			seen[l]++
		}
	}
	var out []string
	for k, v := range seen {
		out = append(out, fmt.Sprintf("%s x%d", k, v))
	}
	sort.Strings(out)
	return strings.Join(out, "; ")
}

func simBubble(t *testing.T, cfg simCfg, idx int, dir string, lineOut *map[string]any) {
	synctest.Test(t, func(t *testing.T) {
		var line map[string]any
		defer func() { *lineOut = line }()
		s := &sim{t: t, cfg: cfg, W: fakes.NewWorld(), casc: map[string]string{}, procs: map[string]*simProc{},
			dir: dir, dead: map[string]bool{}, calls: map[string]int{}}
		s.W.Mute = true
		s.W.DeadProcs = map[string]bool{}
		s.W.NetTimeout = 30 * time.Second
		rnd := rand.New(rand.NewSource(int64(idx)*7919 + 17))
		s.W.AckPick = func(n int) int { return rnd.Intn(n) }
		s.Tree = fakes.NewTree(s.W)
		for i := 1; i <= cfg.N; i++ {
			s.hosts = append(s.hosts, fmt.Sprintf("h%d", i))
		}
		s.all = append([]string{}, s.hosts...)
		if cfg.Cascade {
			s.all = append(s.all, "c1")
			s.casc["c1"] = s.hosts[len(s.hosts)-1]
		}
		// converged semi-sync cluster: h1 master, everybody caught up
		for i, h := range s.all {
			nd := s.W.AddNode(h)
			nd.Executed = fmt.Sprintf("%s:1-100", s.W.Nodes[s.hosts[0]].UUID)
			nd.Retrieved = nd.Executed
			if i == 0 {
				nd.ReadOnly, nd.SuperReadOnly = false, false
				if cfg.N > 1 {
					nd.SemiMaster = true
					nd.WaitCount = min(cfg.N/2, cfg.WaitCount)
					if nd.WaitCount == 0 {
						nd.SemiMaster, nd.WaitCount = false, 1
					}
				}
			} else {
				nd.ReadOnly, nd.SuperReadOnly = true, true
				src := s.hosts[0]
				if c, ok := s.casc[h]; ok {
					src = c
				}
				nd.Repl = &fakes.Repl{Source: src, IO: true, SQL: true}
				_, isC := s.casc[h]
				nd.SemiSlave = !isC
				if cfg.SlowHost == h {
					nd.Slow, nd.InstantRepl = max(cfg.SlowPeriod, 8), false // a replica that lags behind: what it acknowledged sits in its relay log
				}
			}
		}
		s.admin = s.Tree.Client("admin")
		_ = s.admin.Set(dcs.PathHANodesPrefix, "")
		for _, h := range s.hosts {
			_ = s.admin.Set(dcs.JoinPath(dcs.PathHANodesPrefix, h), mysql.NodeConfiguration{Priority: 0})
		}
		if cfg.Cascade {
			_ = s.admin.Set(dcs.PathCascadeNodesPrefix, "")
			for h, from := range s.casc {
				_ = s.admin.Set(dcs.JoinPath(dcs.PathCascadeNodesPrefix, h), mysql.CascadeNodeConfiguration{StreamFrom: from})
			}
		}
		_ = s.admin.Set(pathMasterNode, s.hosts[0])
		_ = s.admin.Set(pathActiveNodes, s.hosts)
		// C07: count the external calls of each mysync once a request runs; kill the manager after the n-th
		s.lastOwned = map[string]int64{}
		s.W.OnStmtBy = func(by, host, op, arg string) {
			if by != "" && by != host && fakes.IsMutating(op) {
				s.act(by, "sql:"+host+":"+op)
			}
			if s.simCall(by, "sql:"+host+":"+op) {
				s.W.Mu.Lock()
				s.crashState = s.crashStateLocked()
				if s.cfg.Successor == "dcs-loss" {
					// the manager does not die: it loses the coordination service and goes on with its servers reachable
					if p := s.procs[by]; p != nil {
						p.d.Connected = false
					}
					s.W.Mu.Unlock()
					go s.dcsLoss(by)
					return
				}
				s.W.DeadProcs[by] = true
				s.W.Mu.Unlock()
				go s.kill(by)
			}
		}
		s.W.OnDcs = func(client, op, path, res string) { // called with the world's lock held
			if op == "get" || op == "children" || op == "connected" || op == "tree" {
				return
			}
			by := simHostOf(client)
			if path == pathManagerLock && (op == "acquire" || op == "release") {
				s.mu.Lock()
				s.noteOwner(s.Tree.Lock[pathManagerLock])
				s.mu.Unlock()
			}
			if by != "admin" && (res == "ok" || res == "lost") && op != "acquire" && op != "release" {
				for _, k := range []string{"master", "active_nodes", "switch", "last_switch", "last_rejected_switch", "maintenance", "recovery/", "cascade_nodes/", "ha_nodes/"} {
					if path == k || (strings.HasSuffix(k, "/") && strings.HasPrefix(path, k)) {
						if !(strings.HasPrefix(path, "recovery/") && strings.TrimPrefix(path, "recovery/") == by) {
							s.act(by, "dcs:"+op+":"+path)
						}
					}
				}
			}
			if op != "acquire" && s.simCall(by, "dcs:"+op+":"+path) {
				s.crashState = s.crashStateLocked()
				if s.cfg.Successor == "dcs-loss" {
					if p := s.procs[by]; p != nil {
						p.d.Connected = false
					}
					go s.dcsLoss(by)
					return
				}
				s.W.DeadProcs[by] = true
				if p := s.procs[by]; p != nil {
					p.d.Connected = false
				}
				go s.kill(by)
			}
		}
		for _, h := range s.all {
			s.start(h)
			time.Sleep(137 * time.Millisecond) // the daemons are not in lock-step
		}
		// warm-up: everybody healthy, a manager elected
		s.runFor(40 * time.Second)
		warmOK, warmWhy := s.canonical()
		time.Sleep(time.Duration(cfg.OffsetMs) * time.Millisecond)
		s.request()
		s.chaos()
		s.inject(true)
		if cfg.DurationS > 0 {
			s.runFor(time.Duration(cfg.DurationS) * time.Second)
			s.inject(false)
		} else {
			s.runFor(150 * time.Second)
			s.inject(false)
		}
		if s.crashed != "" {
			// C07: the successor — the same host restarted, or another host (the dead one stays down)
			if cfg.Successor == "same" {
				s.reap(s.crashed)
				s.start(s.crashed)
			}
			if cfg.Successor == "dcs-loss" {
				s.runFor(100 * time.Second)
			}
		}
		// healing: long enough for recovery, repair, catch-up
		s.runFor(6 * time.Minute)
		if s.crashed != "" && cfg.Successor == "other" {
			s.reap(s.crashed)
			s.start(s.crashed)
			s.runFor(2 * time.Minute)
		}
		canon, why := s.canonical()
		mk := s.masterKey()
		var lost []string
		mExec := ""
		if m := s.W.Nodes[mk]; m != nil {
			mExec = m.Executed
		}
		nAcked := 0
		ackedSet := ""
		for _, tx := range s.W.Acked {
			if tx.Res == "acked" {
				nAcked++
				ackedSet = fakes.GtidUnion(ackedSet, tx.Gtid)
				if !fakes.GtidContains(mExec, tx.Gtid) {
					lost = append(lost, tx.Gtid+"@"+tx.Host)
				}
			}
		}
		snap := s.Tree.Snapshot()
		keys := map[string]string{}
		for _, k := range []string{"switch", "last_switch", "last_rejected_switch", "master", "active_nodes", "maintenance"} {
			if v, ok := snap[k]; ok {
				keys[k] = v
			}
		}
		rec := []string{}
		for k := range snap {
			if strings.HasPrefix(k, "recovery/") {
				rec = append(rec, strings.TrimPrefix(k, "recovery/"))
			}
		}
		sort.Strings(rec)
		var panics []string
		for _, h := range s.all {
			p := s.procs[h]
			p.mu.Lock()
			for _, x := range p.panics {
				panics = append(panics, h+": "+x)
			}
			p.mu.Unlock()
		}
		// who issued what: every mutating statement on a server other than the issuer's own, and every cluster-wide
		// coordination write, with the lock owner at that moment
		// what every daemon says about its own server at the end
		health := map[string]any{}
		for _, h := range s.all {
			var ns struct {
				PingOk bool `json:"ping_ok"`
			}
			p := s.procs[h]
			if s.Tree.GetJSON("health/"+h, &ns) {
				health[h] = map[string]any{"ping_ok": ns.PingOk, "daemon_alive": p != nil && p.alive}
			} else {
				health[h] = map[string]any{"missing": true, "daemon_alive": p != nil && p.alive}
			}
		}
		acts := s.foreignActs()
		digest := s.W.Digest()
		conns := map[string]int{}
		for _, d := range digest {
			conns[d.Host] = d.Conns
		}
		s.stopAll()
		time.Sleep(time.Minute)
		synctest.Wait()
		line = map[string]any{"k": "simrun", "idx": idx, "cfg": cfg, "hosts": s.hosts, "all": s.all, "warm_ok": warmOK, "warm_why": warmWhy,
			"canonical": canon, "why": why, "master_key": mk, "final": digest, "acked": nAcked, "acked_set": ackedSet, "lost": lost,
			"samples": s.compress(), "keys": keys, "recovery": rec, "panics": panics, "foreign_acts": acts,
			"crashed": s.crashed, "crash_call": s.crashCall, "crash_state": s.crashState, "health": health, "request_calls": s.requestCalls(), "call_log": s.callLog, "conns": conns, "env": s.envLog()}
	})
}

// dcsLoss: the process keeps running without the coordination service for 90 s (its session expires after the
// session time-out, so a successor can take over while it is still busy)
func (s *sim) dcsLoss(host string) {
	p := s.procs[host]
	s.W.Env("dcs_loss", host, "")
	s.dcsCut(p, true)
	time.Sleep(90 * time.Second)
	s.dcsCut(p, false)
	s.W.Env("dcs_back", host, "")
}

// crashStateLocked describes the world at the moment the manager dies (world lock held): is there a writable HA node
// that is not the recorded master (promoted, not yet recorded)?
func (s *sim) crashStateLocked() string {
	var mk string
	if d, ok := s.Tree.Data[pathMasterNode]; ok {
		_ = json.Unmarshal(d, &mk)
	}
	for _, h := range s.hosts {
		n := s.W.Nodes[h]
		if n.Alive && !n.ReadOnly && !n.SuperReadOnly && h != mk {
			return "promoted-node-not-yet-recorded"
		}
	}
	return "other"
}

// noteOwner: s.mu held
func (s *sim) noteOwner(id string) {
	o := simHostOf(id)
	if s.owner != "" && s.owner != o {
		s.lastOwned[s.owner] = time.Now().UnixNano()
	}
	s.owner = o
}

func (s *sim) act(by, what string) {
	s.mu.Lock()
	defer s.mu.Unlock()
	a := simAct{T: time.Now().UnixNano(), By: by, What: what, Owner: s.owner, SinceOwned: -1}
	if s.owner == by {
		a.SinceOwned = 0
	} else if t, ok := s.lastOwned[by]; ok {
		a.SinceOwned = (a.T - t) / 1e6
	}
	if a.Owner != by || len(s.actsLog) < 40 {
		s.actsLog = append(s.actsLog, a)
	}
}

// simCall counts the external calls of the manager that runs the request (C07); true = the process dies now
func (s *sim) simCall(by, what string) bool {
	if s.cfg.CrashAfter == 0 || by == "" || by == "admin" {
		return false
	}
	s.mu.Lock()
	defer s.mu.Unlock()
	if s.crashed != "" {
		return false
	}
	// the count starts when the request has been taken up: the first write of `switch` by a daemon
	if s.calls["!started"] == 0 {
		if strings.HasPrefix(what, "dcs:set:switch") {
			s.calls["!started"] = 1
			s.calls["!by:"+by] = 1
		}
		return false
	}
	if s.calls["!by:"+by] == 0 || s.calls["!done"] == 1 {
		return false
	}
	if strings.HasPrefix(what, "dcs:delete:switch") {
		s.calls["!done"] = 1 // the request reached a terminal record: the procedure is over
	}
	s.calls[by]++
	if s.cfg.CrashAfter < 0 {
		s.callLog = append(s.callLog, what)
	}
	if s.calls[by] == s.cfg.CrashAfter {
		s.crashed, s.crashCall, s.crashedAt = by, what, time.Now().UnixNano()
		return true
	}
	return false
}

func (s *sim) requestCalls() int {
	s.mu.Lock()
	defer s.mu.Unlock()
	n := 0
	for k, v := range s.calls {
		if !strings.HasPrefix(k, "!") && v > n {
			n = v
		}
	}
	return n
}

// compress keeps the samples where something changes
func (s *sim) compress() []simSample {
	var out []simSample
	key := func(x simSample) string {
		return fmt.Sprint(x.Writable, x.Acked, x.Pending, x.Manager, x.MasterKey)
	}
	for i, x := range s.samples {
		if i == 0 || key(x) != key(s.samples[i-1]) {
			out = append(out, x)
		}
	}
	return out
}

type simAct struct {
	T     int64  `json:"t"`
	By    string `json:"by"`
	What  string `json:"what"`
	Owner string `json:"owner"` // lock owner at that moment ("" = nobody)
	// ms since By last owned the lock: 0 = owns it now, -1 = never owned it
	SinceOwned int64 `json:"since_owned_ms"`
}

func jsonUnmarshal(s string, v any) error { return json.Unmarshal([]byte(s), v) }

func (s *sim) envLog() []string {
	var out []string
	s.W.Mu.Lock()
	for _, e := range s.W.Log {
		if e.Kind == "env" {
			out = append(out, fmt.Sprintf("%d %s %s %s", e.T/1e6, e.Op, e.Host, e.Arg))
		}
	}
	s.W.Mu.Unlock()
	return out
}

func (s *sim) foreignActs() []simAct {
	s.mu.Lock()
	defer s.mu.Unlock()
	return s.actsLog
}

func simGrid(r *rand.Rand, n int) []simCfg {
	var out []simCfg
	faults := []string{"crash_mysql", "isolate", "kill_mysync", "zk_lost", "request", "none"}
	for i := 0; i < n; i++ {
		c := simCfg{N: 2 + r.Intn(3), WaitCount: 1 + r.Intn(2), Failover: r.Intn(4) > 0, MasterFirst: r.Intn(2) == 0,
			FailDelay: []int{0, 0, 10, 30}[r.Intn(4)], OffsetMs: r.Intn(5000), DurationS: []int{0, 3, 20, 90}[r.Intn(4)]}
		c.Cascade = c.N >= 2 && r.Intn(4) == 0
		c.MgrSwitch = r.Intn(3) == 0
		if r.Intn(2) == 0 { // also in a two-node cluster: the only acknowledging replica applies late (received ≠ applied)
			c.SlowHost = fmt.Sprintf("h%d", 2+r.Intn(c.N-1))
			c.SlowPeriod = []int{8, 8, 120}[r.Intn(3)]
		}
		c.Fault = faults[i%len(faults)]
		hosts := []string{}
		for k := 1; k <= c.N; k++ {
			hosts = append(hosts, fmt.Sprintf("h%d", k))
		}
		switch c.Fault {
		case "crash_mysql", "isolate", "kill_mysync":
			c.Target = hosts[r.Intn(len(hosts))]
			if r.Intn(2) == 0 {
				c.Target = "h1" // the master more often
			}
		case "zk_lost":
			c.Target = append(hosts, "all")[r.Intn(len(hosts)+1)]
		case "request":
			if r.Intn(3) > 0 {
				c.Request = "to:" + hosts[1+r.Intn(len(hosts)-1)]
				if c.SlowHost != "" && r.Intn(3) > 0 {
					c.Request = "to:" + c.SlowHost // the lagging replica is asked to take over: it must catch up first
				}
			} else {
				c.Request = "from:h1"
			}
		}
		out = append(out, c)
	}
	// a family the random grid hits too rarely: the master is lost while what the replicas acknowledged is still only in a
	// relay log (received, not applied) — the promoted node must wait for it, nothing received may be thrown away
	for i := 0; i < max(n/12, 4); i++ {
		c := simCfg{N: 2 + i%2, WaitCount: 1 + r.Intn(2), Failover: true, MasterFirst: r.Intn(2) == 0, FailDelay: []int{0, 10}[r.Intn(2)],
			OffsetMs: r.Intn(5000), DurationS: []int{0, 90}[r.Intn(2)], Fault: []string{"crash_mysql", "isolate"}[r.Intn(2)], Target: "h1",
			SlowHost: "h2", SlowPeriod: 120}
		out = append(out, c)
	}
	return out
}

func TestVerifSim(t *testing.T) {
	out := verifh.Open(t)
	defer out.Close()
	r := verifh.Rand()
	n := verifh.Pick(60, 600)
	if v := os.Getenv("VERIF_SIM_N"); v != "" {
		fmt.Sscan(v, &n)
	}
	only := -1
	if v := os.Getenv("VERIF_SIM_ONLY"); v != "" {
		fmt.Sscan(v, &only)
	}
	for i, c := range simGrid(r, n) {
		if only >= 0 && i != only {
			continue
		}
		simRun(t, out, c, i)
	}
}

// C07: kill the manager after each external call of a running switchover / failover
func TestVerifC07(t *testing.T) {
	out := verifh.Open(t)
	defer out.Close()
	r := verifh.Rand()
	type base struct {
		n       int
		fault   string
		request string
	}
	bases := []base{{2, "request", "to:h2"}, {3, "request", "to:h2"}, {3, "request", "from:h1"}, {4, "request", "to:h3"},
		{3, "crash_mysql", ""}, {4, "isolate", ""}, {2, "crash_mysql", ""}}
	stride := verifh.Pick(15, 1)
	idx := 0
	for bi, b := range bases {
		if v := os.Getenv("VERIF_C07_BASE"); v != "" && v != fmt.Sprint(bi) {
			continue
		}
		c := simCfg{N: b.n, WaitCount: 1 + r.Intn(2), Failover: true, MasterFirst: r.Intn(2) == 0, FailDelay: 0, OffsetMs: r.Intn(2000),
			Fault: b.fault, Target: "h1", Request: b.request, DurationS: 0, CrashAfter: -1}
		if b.fault == "request" {
			c.Target = ""
		}
		calls := simRun(t, out, c, idx)
		k := len(calls)
		if k == 0 {
			t.Logf("base %+v: no request was taken up", b)
			continue
		}
		// crash points: after every coordination write and every statement that changes a server (where a half-done
		// procedure differs from the previous point), plus a stride through all the others
		pick := map[int]bool{}
		for i, w := range calls {
			mut := strings.HasPrefix(w, "dcs:")
			if strings.HasPrefix(w, "sql:") {
				parts := strings.SplitN(w, ":", 3)
				mut = len(parts) == 3 && fakes.IsMutating(parts[2])
			}
			if mut && (verifh.Thorough() || strings.HasPrefix(w, "dcs:") || r.Intn(3) == 0) {
				pick[i+1] = true
			}
		}
		for i := 1 + r.Intn(stride); i <= k+1; i += stride {
			pick[i] = true
		}
		var pts []int
		for i := range pick {
			pts = append(pts, i)
		}
		sort.Ints(pts)
		if v := os.Getenv("VERIF_C07_AT"); v != "" {
			pts = nil
			for i, w := range calls {
				if strings.Contains(w, v) {
					pts = append(pts, i+1)
				}
			}
		}
		for n, i := range pts {
			succs := []string{"same", "other", "dcs-loss"}
			if !verifh.Thorough() {
				succs = succs[n%3 : n%3+1]
			}
			for _, succ := range succs {
				c2 := c
				c2.CrashAfter, c2.Successor = i, succ
				idx++
				simRun(t, out, c2, idx)
			}
		}
	}
}

// C20: ill-formed coordination contents and hostile environments, with and without a concurrent fault
func TestVerifC20(t *testing.T) {
	out := verifh.Open(t)
	defer out.Close()
	r := verifh.Rand()
	reps := verifh.Pick(2, 12)
	idx := 0
	only := os.Getenv("VERIF_CHAOS")
	for rep := 0; rep < reps; rep++ {
		for _, ch := range simChaos {
			if only != "" && only != ch {
				continue
			}
			c := simCfg{N: 2 + r.Intn(3), WaitCount: 1 + r.Intn(2), Failover: r.Intn(4) > 0, MasterFirst: r.Intn(2) == 0, FailDelay: 0,
				OffsetMs: r.Intn(3000), DurationS: 60, Fault: "none", Chaos: ch, MgrSwitch: r.Intn(3) == 0}
			if rep%2 == 1 {
				c.Fault = []string{"crash_mysql", "kill_mysync", "zk_lost", "isolate"}[r.Intn(4)]
				c.Target = fmt.Sprintf("h%d", 1+r.Intn(c.N))
			}
			simRun(t, out, c, idx)
			idx++
		}
	}
}
