//go:build verif

package zkfake

// A fake ZooKeeper ensemble speaking the jute wire protocol over net.Pipe, for the REAL
// go-zookeeper client used by internal/dcs/zk.go.  One znode tree with versions and ephemeral
// owners, sessions that survive reconnects until expired, a primitive log in server order, and a
// gate that lets the test driver decide which pending request is served next (primitive-level
// interleaving of several clients) or loses its reply / its connection.

import (
	"encoding/binary"
	"errors"
	"fmt"
	"io"
	"net"
	"sort"
	"strings"
	"sync"
	"time"
)

const (
	zkOpCreate       = 1
	zkOpDelete       = 2
	zkOpExists       = 3
	zkOpGetData      = 4
	zkOpSetData      = 5
	zkOpGetChildren  = 8
	zkOpSync         = 9
	zkOpPing         = 11
	zkOpGetChildren2 = 12
	zkOpClose        = -11
	zkOpSetAuth      = 100
	zkOpSetWatches   = 101

	zkErrNoNode       = -101
	zkErrBadVersion   = -103
	zkErrNoChildEph   = -108
	zkErrNodeExists   = -110
	zkErrNotEmpty     = -111
	zkErrSessExpired  = -112
	zkErrUnimplemented = -6
)

type ZNode struct {
	Data    []byte
	Version int32
	Owner   int64 // session id, 0 = persistent
	Czxid   int64
	Mzxid   int64
}

type ZSession struct {
	ID      int64
	Client  string
	Alive   bool
	Timeout time.Duration
	Conn    net.Conn // current connection (nil when detached)
	Seen    time.Time
}

// ZkPrim is one primitive as processed by the server (server order = linearisation order).
type ZkPrim struct {
	Seq    int    `json:"seq"`
	Client string `json:"client"`
	Sid    int64  `json:"sid"`
	Op     string `json:"op"`
	Path   string `json:"path"`
	Data   string `json:"data,omitempty"`
	Ver    int32  `json:"ver"`
	Eph    bool   `json:"eph,omitempty"`
	// response
	Err      string   `json:"err,omitempty"` // "", noNode, nodeExists, badVersion, notEmpty, noChildrenForEphemerals
	RData    string   `json:"rdata,omitempty"`
	RVer     int32    `json:"rver"`
	ROwner   int64    `json:"rowner"`
	Children []string `json:"children,omitempty"`
	Fate     string   `json:"fate,omitempty"` // "", "lost" (applied, reply never delivered), "dropped" (not applied)
	OpID     int      `json:"opid"`
}

type zkReq struct {
	sess   *ZSession
	conn   net.Conn
	xid    int32
	opcode int32
	path   string
	data   []byte
	ver    int32
	flags  int32
}

type ZkServer struct {
	Mu       sync.Mutex
	Nodes    map[string]*ZNode
	Sessions map[int64]*ZSession
	nextSid  int64
	zxid     int64
	Log      []ZkPrim
	// Gate: data requests are queued in Pending until the driver serves them
	Gate    bool
	Pending []*zkReq
	// Unreachable clients cannot dial; Silent connections of a client swallow everything (a hung link)
	Unreachable map[string]bool
	Silent      map[string]bool
	// AutoExpire: sessions without a connection (or silent) for longer than their timeout are expired lazily
	AutoExpire bool
	// CurOp lets the driver tag primitives with the client-level operation they belong to
	CurOp map[string]int
	// Events seen by the driver (session open / expire), in server order with the primitive log
	OnPrim func(p ZkPrim)
	// OnSess reports "session" (opened) / "expire" (ended, ephemerals removed) in server order
	OnSess func(kind, client string, sid int64)
}

func NewZkServer() *ZkServer {
	return &ZkServer{Nodes: map[string]*ZNode{}, Sessions: map[int64]*ZSession{}, nextSid: 100,
		Unreachable: map[string]bool{}, Silent: map[string]bool{}, CurOp: map[string]int{}}
}

// ---- jute encoding ------------------------------------------------------------------------------

type jbuf struct{ b []byte }

func (j *jbuf) i32(v int32)  { j.b = binary.BigEndian.AppendUint32(j.b, uint32(v)) }
func (j *jbuf) i64(v int64)  { j.b = binary.BigEndian.AppendUint64(j.b, uint64(v)) }
func (j *jbuf) str(s string) { j.i32(int32(len(s))); j.b = append(j.b, s...) }
func (j *jbuf) buf(d []byte) {
	if d == nil {
		j.i32(-1)
		return
	}
	j.i32(int32(len(d)))
	j.b = append(j.b, d...)
}

type jrd struct {
	b   []byte
	err error
}

func (r *jrd) need(n int) bool {
	if r.err != nil || len(r.b) < n {
		r.err = errors.New("short jute packet")
		return false
	}
	return true
}
func (r *jrd) i32() int32 {
	if !r.need(4) {
		return 0
	}
	v := int32(binary.BigEndian.Uint32(r.b))
	r.b = r.b[4:]
	return v
}
func (r *jrd) i64() int64 {
	if !r.need(8) {
		return 0
	}
	v := int64(binary.BigEndian.Uint64(r.b))
	r.b = r.b[8:]
	return v
}
func (r *jrd) bytes() []byte {
	n := r.i32()
	if n < 0 {
		return nil
	}
	if !r.need(int(n)) {
		return nil
	}
	v := append([]byte{}, r.b[:n]...)
	r.b = r.b[n:]
	return v
}
func (r *jrd) str() string { return string(r.bytes()) }
func (r *jrd) boolean() bool {
	if !r.need(1) {
		return false
	}
	v := r.b[0] != 0
	r.b = r.b[1:]
	return v
}

func readFrame(c net.Conn) ([]byte, error) {
	var h [4]byte
	if _, err := io.ReadFull(c, h[:]); err != nil {
		return nil, err
	}
	n := binary.BigEndian.Uint32(h[:])
	if n > 1<<22 {
		return nil, errors.New("frame too large")
	}
	b := make([]byte, n)
	if _, err := io.ReadFull(c, b); err != nil {
		return nil, err
	}
	return b, nil
}

func writeFrame(c net.Conn, b []byte) error {
	out := make([]byte, 4, 4+len(b))
	binary.BigEndian.PutUint32(out, uint32(len(b)))
	out = append(out, b...)
	_, err := c.Write(out)
	return err
}

func (s *ZkServer) stat(j *jbuf, path string, n *ZNode) {
	j.i64(n.Czxid)
	j.i64(n.Mzxid)
	j.i64(0)
	j.i64(0)
	j.i32(n.Version)
	j.i32(0)
	j.i32(0)
	j.i64(n.Owner)
	j.i32(int32(len(n.Data)))
	j.i32(int32(len(s.childrenOf(path))))
	j.i64(n.Czxid)
}

// ---- tree ---------------------------------------------------------------------------------------

func zkParent(p string) string {
	i := strings.LastIndex(p, "/")
	if i <= 0 {
		return "/"
	}
	return p[:i]
}

func (s *ZkServer) node(p string) *ZNode {
	if p == "/" {
		return &ZNode{}
	}
	return s.Nodes[p]
}

func (s *ZkServer) childrenOf(p string) []string {
	pre := p + "/"
	if p == "/" {
		pre = "/"
	}
	var out []string
	for k := range s.Nodes {
		if strings.HasPrefix(k, pre) && !strings.Contains(k[len(pre):], "/") && len(k) > len(pre) {
			out = append(out, k[len(pre):])
		}
	}
	sort.Strings(out)
	return out
}

// apply executes one primitive on the tree; returns the error code and the reply body
func (s *ZkServer) apply(r *zkReq, pr *ZkPrim) (int32, []byte) {
	var j jbuf
	s.zxid++
	switch r.opcode {
	case zkOpCreate:
		pr.Op, pr.Data, pr.Eph = "create", string(r.data), r.flags&1 != 0
		if r.flags&^1 != 0 {
			return zkErrUnimplemented, nil
		}
		if r.path == "/" {
			return zkErrNodeExists, nil
		}
		par := s.node(zkParent(r.path))
		if par == nil {
			return zkErrNoNode, nil
		}
		if s.Nodes[r.path] != nil {
			return zkErrNodeExists, nil
		}
		if par.Owner != 0 {
			return zkErrNoChildEph, nil
		}
		n := &ZNode{Data: append([]byte{}, r.data...), Czxid: s.zxid, Mzxid: s.zxid}
		if r.flags&1 != 0 {
			n.Owner = r.sess.ID
		}
		s.Nodes[r.path] = n
		j.str(r.path)
		return 0, j.b
	case zkOpDelete:
		pr.Op, pr.Ver = "delete", r.ver
		n := s.Nodes[r.path]
		if n == nil {
			return zkErrNoNode, nil
		}
		if r.ver != -1 && r.ver != n.Version {
			return zkErrBadVersion, nil
		}
		if len(s.childrenOf(r.path)) > 0 {
			return zkErrNotEmpty, nil
		}
		delete(s.Nodes, r.path)
		return 0, nil
	case zkOpExists, zkOpGetData:
		pr.Op = "get"
		n := s.node(r.path)
		if n == nil {
			return zkErrNoNode, nil
		}
		pr.RData, pr.RVer, pr.ROwner = string(n.Data), n.Version, n.Owner
		if r.opcode == zkOpGetData {
			j.buf(n.Data)
		} else {
			pr.Op = "exists"
		}
		s.stat(&j, r.path, n)
		return 0, j.b
	case zkOpSetData:
		pr.Op, pr.Data, pr.Ver = "set", string(r.data), r.ver
		n := s.Nodes[r.path]
		if n == nil {
			return zkErrNoNode, nil
		}
		if r.ver != -1 && r.ver != n.Version {
			return zkErrBadVersion, nil
		}
		n.Data = append([]byte{}, r.data...)
		n.Version++
		n.Mzxid = s.zxid
		pr.RVer = n.Version
		s.stat(&j, r.path, n)
		return 0, j.b
	case zkOpGetChildren, zkOpGetChildren2:
		pr.Op = "children"
		n := s.node(r.path)
		if n == nil {
			return zkErrNoNode, nil
		}
		ch := s.childrenOf(r.path)
		pr.Children = ch
		j.i32(int32(len(ch)))
		for _, c := range ch {
			j.str(c)
		}
		if r.opcode == zkOpGetChildren2 {
			s.stat(&j, r.path, n)
		}
		return 0, j.b
	case zkOpSync:
		pr.Op = "sync"
		j.str(r.path)
		return 0, j.b
	}
	pr.Op = fmt.Sprintf("op%d", r.opcode)
	return zkErrUnimplemented, nil
}

func zkErrName(c int32) string {
	switch c {
	case 0:
		return ""
	case zkErrNoNode:
		return "noNode"
	case zkErrBadVersion:
		return "badVersion"
	case zkErrNoChildEph:
		return "noChildrenForEphemerals"
	case zkErrNodeExists:
		return "nodeExists"
	case zkErrNotEmpty:
		return "notEmpty"
	}
	return fmt.Sprintf("code%d", c)
}

// process applies a request and replies; fate "" = normal, "lost" = applied but the connection is cut
// before the reply, "dropped" = connection cut, nothing applied.  Caller holds Mu.
func (s *ZkServer) process(r *zkReq, fate string) {
	pr := ZkPrim{Seq: len(s.Log) + 1, Client: r.sess.Client, Sid: r.sess.ID, Path: r.path, Fate: fate, OpID: s.CurOp[r.sess.Client]}
	if !r.sess.Alive {
		// the session is gone: the server answers SESSIONEXPIRED by closing the connection
		r.conn.Close()
		return
	}
	if fate == "dropped" {
		pr.Op = "dropped"
		r.conn.Close()
		return
	}
	code, body := s.apply(r, &pr)
	pr.Err = zkErrName(code)
	s.Log = append(s.Log, pr)
	if s.OnPrim != nil {
		s.OnPrim(pr)
	}
	if fate == "lost" {
		r.conn.Close()
		return
	}
	var j jbuf
	j.i32(r.xid)
	j.i64(s.zxid)
	j.i32(code)
	j.b = append(j.b, body...)
	conn := r.conn
	out := j.b
	go func() { _ = writeFrame(conn, out) }()
}

// ---- sessions -----------------------------------------------------------------------------------

// expireLocked removes the session and its ephemerals.
func (s *ZkServer) expireLocked(sess *ZSession) {
	if !sess.Alive {
		return
	}
	sess.Alive = false
	if s.OnSess != nil {
		s.OnSess("expire", sess.Client, sess.ID)
	}
	for p, n := range s.Nodes {
		if n.Owner == sess.ID {
			delete(s.Nodes, p)
		}
	}
	if sess.Conn != nil {
		sess.Conn.Close()
		sess.Conn = nil
	}
}

// Expire expires the current live session(s) of a client; returns the expired ids.
func (s *ZkServer) Expire(client string) []int64 {
	s.Mu.Lock()
	defer s.Mu.Unlock()
	var out []int64
	for _, ss := range s.Sessions {
		if ss.Client == client && ss.Alive {
			s.expireLocked(ss)
			out = append(out, ss.ID)
		}
	}
	sort.Slice(out, func(i, j int) bool { return out[i] < out[j] })
	return out
}

// ExpireDue expires sessions that have been without a usable connection longer than their timeout.
func (s *ZkServer) ExpireDue() []int64 {
	s.Mu.Lock()
	defer s.Mu.Unlock()
	return s.expireDueLocked()
}

func (s *ZkServer) expireDueLocked() []int64 {
	var out []int64
	now := time.Now()
	for _, ss := range s.Sessions {
		if ss.Alive && now.Sub(ss.Seen) > ss.Timeout {
			s.expireLocked(ss)
			out = append(out, ss.ID)
		}
	}
	return out
}

// CutConn closes the current connection of a client (the session stays alive).
func (s *ZkServer) CutConn(client string) {
	s.Mu.Lock()
	defer s.Mu.Unlock()
	for _, ss := range s.Sessions {
		if ss.Client == client && ss.Conn != nil {
			ss.Conn.Close()
			ss.Conn = nil
		}
	}
	// pending requests of that client die with the connection
	var keep []*zkReq
	for _, r := range s.Pending {
		if r.sess.Client != client {
			keep = append(keep, r)
		}
	}
	s.Pending = keep
}

func (s *ZkServer) LiveSession(client string) int64 {
	s.Mu.Lock()
	defer s.Mu.Unlock()
	var id int64
	for _, ss := range s.Sessions {
		if ss.Client == client && ss.Alive && ss.ID > id {
			id = ss.ID
		}
	}
	return id
}

// Dialer returns the zk.Dialer-compatible function for one client.
func (s *ZkServer) Dialer(client string) func(network, address string, timeout time.Duration) (net.Conn, error) {
	return func(network, address string, timeout time.Duration) (net.Conn, error) {
		s.Mu.Lock()
		un := s.Unreachable[client]
		s.Mu.Unlock()
		if un {
			time.Sleep(50 * time.Millisecond)
			return nil, errors.New("fake zk: connection refused")
		}
		c1, c2 := net.Pipe()
		go s.serve(c2, client)
		return c1, nil
	}
}

func (s *ZkServer) serve(c net.Conn, client string) {
	defer c.Close()
	b, err := readFrame(c)
	if err != nil {
		return
	}
	rd := &jrd{b: b}
	rd.i32()
	rd.i64()
	timeoutMs := rd.i32()
	sid := rd.i64()
	rd.bytes()
	s.Mu.Lock()
	if s.AutoExpire {
		s.expireDueLocked()
	}
	var sess *ZSession
	if sid != 0 {
		if ss := s.Sessions[sid]; ss != nil && ss.Alive {
			sess = ss
		} else {
			// expired: answer with session id 0
			s.Mu.Unlock()
			var j jbuf
			j.i32(0)
			j.i32(timeoutMs)
			j.i64(0)
			j.buf(make([]byte, 16))
			_ = writeFrame(c, j.b)
			return
		}
	} else {
		s.nextSid++
		sess = &ZSession{ID: s.nextSid, Client: client, Alive: true, Timeout: time.Duration(timeoutMs) * time.Millisecond}
		s.Sessions[sess.ID] = sess
		if s.OnSess != nil {
			s.OnSess("session", client, sess.ID)
		}
	}
	if sess.Conn != nil {
		sess.Conn.Close()
	}
	sess.Conn = c
	sess.Seen = time.Now()
	s.Mu.Unlock()
	var j jbuf
	j.i32(0)
	j.i32(timeoutMs)
	j.i64(sess.ID)
	j.buf(make([]byte, 16))
	if writeFrame(c, j.b) != nil {
		return
	}
	for {
		b, err := readFrame(c)
		if err != nil {
			s.Mu.Lock()
			if sess.Conn == c {
				sess.Conn = nil
			}
			s.Mu.Unlock()
			return
		}
		rd := &jrd{b: b}
		xid := rd.i32()
		op := rd.i32()
		s.Mu.Lock()
		if s.Silent[client] {
			s.Mu.Unlock()
			continue
		}
		if s.AutoExpire {
			s.expireDueLocked()
		}
		if !sess.Alive {
			s.Mu.Unlock()
			return
		}
		sess.Seen = time.Now()
		switch op {
		case zkOpPing:
			s.Mu.Unlock()
			var j jbuf
			j.i32(-2)
			j.i64(0)
			j.i32(0)
			if writeFrame(c, j.b) != nil {
				return
			}
			continue
		case zkOpClose:
			s.expireLocked(sess)
			s.Mu.Unlock()
			return
		case zkOpSetAuth, zkOpSetWatches:
			s.Mu.Unlock()
			var j jbuf
			j.i32(xid)
			j.i64(0)
			j.i32(0)
			if writeFrame(c, j.b) != nil {
				return
			}
			continue
		}
		r := &zkReq{sess: sess, conn: c, xid: xid, opcode: op}
		switch op {
		case zkOpCreate:
			r.path = rd.str()
			r.data = rd.bytes()
			n := rd.i32()
			for i := int32(0); i < n && rd.err == nil; i++ {
				rd.i32()
				rd.str()
				rd.str()
			}
			r.flags = rd.i32()
		case zkOpDelete:
			r.path = rd.str()
			r.ver = rd.i32()
		case zkOpSetData:
			r.path = rd.str()
			r.data = rd.bytes()
			r.ver = rd.i32()
		default:
			r.path = rd.str()
		}
		if rd.err != nil {
			s.Mu.Unlock()
			return
		}
		if s.Gate {
			s.Pending = append(s.Pending, r)
		} else {
			s.process(r, "")
		}
		s.Mu.Unlock()
	}
}

// ---- driver side --------------------------------------------------------------------------------

// PendingClients lists the clients that have a request waiting at the gate (in arrival order).
func (s *ZkServer) PendingClients() []string {
	s.Mu.Lock()
	defer s.Mu.Unlock()
	var out []string
	for _, r := range s.Pending {
		out = append(out, r.sess.Client)
	}
	return out
}

// Serve processes the i-th pending request with the given fate.
func (s *ZkServer) Serve(i int, fate string) {
	s.Mu.Lock()
	defer s.Mu.Unlock()
	if i < 0 || i >= len(s.Pending) {
		return
	}
	r := s.Pending[i]
	s.Pending = append(s.Pending[:i:i], s.Pending[i+1:]...)
	s.process(r, fate)
}

// Tree returns path -> {data, version, owner client} for digests.
func (s *ZkServer) Tree() map[string]map[string]any {
	s.Mu.Lock()
	defer s.Mu.Unlock()
	out := map[string]map[string]any{}
	for p, n := range s.Nodes {
		out[p] = map[string]any{"data": string(n.Data), "ver": n.Version, "owner": n.Owner}
	}
	return out
}

// PutRaw writes a node directly (scenario set-up; not logged).
func (s *ZkServer) PutRaw(path string, data []byte, owner int64) {
	s.Mu.Lock()
	defer s.Mu.Unlock()
	s.zxid++
	parts := strings.Split(strings.Trim(path, "/"), "/")
	cur := ""
	for i, p := range parts {
		cur += "/" + p
		if i == len(parts)-1 {
			break
		}
		if s.Nodes[cur] == nil {
			s.Nodes[cur] = &ZNode{Data: []byte{}, Czxid: s.zxid, Mzxid: s.zxid}
		}
	}
	s.Nodes[path] = &ZNode{Data: data, Owner: owner, Czxid: s.zxid, Mzxid: s.zxid}
}

func (s *ZkServer) SetSilent(client string, v bool) {
	s.Mu.Lock()
	s.Silent[client] = v
	s.Mu.Unlock()
}

func (s *ZkServer) SetUnreachable(client string, v bool) {
	s.Mu.Lock()
	s.Unreachable[client] = v
	s.Mu.Unlock()
}

// PutRawIfParent writes a persistent node directly when its parent exists and the node is not an
// ephemeral one (keeps the tree well-formed); reports whether it did.
func (s *ZkServer) PutRawIfParent(path string, data []byte) bool {
	s.Mu.Lock()
	defer s.Mu.Unlock()
	if s.node(zkParent(path)) == nil || s.node(zkParent(path)).Owner != 0 {
		return false
	}
	if n := s.Nodes[path]; n != nil {
		if n.Owner != 0 {
			return false
		}
		s.zxid++
		n.Data = data
		n.Version++
		n.Mzxid = s.zxid
		return true
	}
	s.zxid++
	s.Nodes[path] = &ZNode{Data: data, Czxid: s.zxid, Mzxid: s.zxid}
	return true
}

func (s *ZkServer) TakeLog() []ZkPrim {
	s.Mu.Lock()
	defer s.Mu.Unlock()
	l := s.Log
	s.Log = nil
	return l
}
