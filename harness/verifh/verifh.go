//go:build verif

// Package verifh is overlaid into /repo/internal/verifh at build time by /verif/check.
// It is the shared plumbing of the correspondence harness: trace writer, seed, tier.
package verifh

import (
	"bufio"
	"encoding/json"
	"math/rand"
	"os"
	"strconv"
	"sync"
	"testing"
)

type Out struct {
	mu sync.Mutex
	f  *os.File
	w  *bufio.Writer
	N  int
}

// Open opens $VERIF_OUT (append).  The test is skipped when the variable is unset so that a plain
// `go test -tags verif ./...` stays green.
func Open(t testing.TB) *Out {
	p := os.Getenv("VERIF_OUT")
	if p == "" {
		t.Skip("VERIF_OUT not set")
	}
	f, err := os.OpenFile(p, os.O_CREATE|os.O_WRONLY|os.O_APPEND, 0o644)
	if err != nil {
		t.Fatal(err)
	}
	return &Out{f: f, w: bufio.NewWriterSize(f, 1<<20)}
}

func (o *Out) Line(v any) {
	b, err := json.Marshal(v)
	if err != nil {
		panic(err)
	}
	o.mu.Lock()
	o.w.Write(b)
	o.w.WriteByte('\n')
	o.N++
	o.mu.Unlock()
}

func (o *Out) Close() {
	o.mu.Lock()
	o.w.Flush()
	o.f.Close()
	o.mu.Unlock()
}

func Seed() int64 {
	s, err := strconv.ParseInt(os.Getenv("VERIF_SEED"), 10, 64)
	if err != nil {
		return 1
	}
	return s
}

func Rand() *rand.Rand { return rand.New(rand.NewSource(Seed())) }

func Thorough() bool { return os.Getenv("VERIF_TIER") == "thorough" }

// Pick returns q in the quick tier and th in the thorough tier.
func Pick(q, th int) int {
	if Thorough() {
		return th
	}
	return q
}
