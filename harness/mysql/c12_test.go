//go:build verif

package mysql

import (
	"testing"

	"github.com/yandex/mysync/internal/config"
	"github.com/yandex/mysync/internal/verifh"
)

// TestVerifC12 evaluates the three exported quorum helpers of the REAL switch helper on a grid and
// writes one JSON line per point; the Lean replayer compares with the regenerated definitions.
func TestVerifC12(t *testing.T) {
	out := verifh.Open(t)
	defer out.Close()
	maxN := verifh.Pick(48, 256)
	maxW := verifh.Pick(26, 130)
	for _, ss := range []bool{true, false} {
		for n := 0; n <= maxN; n++ {
			nodes := make([]string, n)
			for i := range nodes {
				nodes[i] = "h"
			}
			for w := 0; w <= maxW; w++ {
				cfg := &config.Config{SemiSync: ss, RplSemiSyncMasterWaitForSlaveCount: w}
				sh := NewSwitchHelper(cfg)
				req := sh.GetRequiredWaitSlaveCount(nodes)
				q := sh.GetFailoverQuorum(nodes)
				// p around 0, the quorum and the list size
				ps := map[int]bool{0: true, 1: true, q - 1: true, q: true, q + 1: true, n: true, n + 1: true}
				for p := range ps {
					if p < 0 {
						continue
					}
					msg := ""
					if err := sh.CheckFailoverQuorum(nodes, p); err != nil {
						msg = err.Error()
					}
					out.Line(map[string]any{"k": "c12", "n": n, "w": w, "ss": ss, "p": p, "req": req, "quorum": q, "check": msg})
				}
			}
		}
	}
}
